(** C19 -- arithmetic lines evaluate with standard precedence and never crash the shell.
    Statements only; proofs are in Proofs/Calc*.v. *)
From Coq Require Import ZArith String.
From Cicada Require Import Base.Chars Gen.CalcTables Model.Calc
  Proofs.CalcClassify Proofs.CalcPratt Proofs.CalcFusion Proofs.CalcInt.
Local Open Scope string_scope.

(** The source sites the hand-written matchers / tokenizer / table were written
    against, as the translator found them in the current tree. *)
Theorem gen_is_expected :
  re1_src = "[0-9]+" /\
  re2_src = "\+|\-|\*|/|\^" /\
  re3_src = "^[ 0-9\.\(\)\+\-\*/\^]+[\.0-9 \)]$" /\
  is_arith_shape = "if !re_contains(line, R) { return false; } if !re_contains(line, R) { return false; } re_contains(line, R)" /\
  pratt_ops = [[("add", true); ("subtract", true)]; [("multiply", true); ("divide", true)]; [("power", false)]] /\
  grammar_src = "num = @{ int ~ (""."" ~ ASCII_DIGIT*)? ~ (^""e"" ~ int)? } int = { (""+"" | ""-"")? ~ ASCII_DIGIT+ } operation = _{ add | subtract | multiply | divide | power } add = { ""+"" } subtract = { ""-"" } multiply = { ""*"" } divide = { ""/"" } power = { ""^"" } expr = { term ~ (operation ~ term)* } term = _{ num | ""("" ~ expr ~ "")"" } calculation = _{ SOI ~ expr ~ EOI } WHITESPACE = _{ "" "" | ""\t"" }".
Proof. repeat split; reflexivity. Qed.
Local Close Scope string_scope.
Local Open Scope Z_scope.

(** The binding powers pest computes from the chain (PREC_STEP = 10, first level 20). *)
Theorem table_expected :
  List.map prec_of [Add; Sub; Mul; Div; Pow] = [20; 20; 30; 30; 40]%N /\
  List.map is_left [Add; Sub; Mul; Div; Pow] = [true; true; true; true; false].
Proof. split; reflexivity. Qed.

(** (3) Classification: a line is arithmetic iff it consists of blanks, digits, dots,
    parentheses and the five operators only, has a digit, has an operator, and ends
    in a dot, a digit, a blank or a closing parenthesis. *)
Theorem C19_classify : forall l : str,
  is_arithmetic l = true <->
  (Forall (fun c => in_set_a c = true) l /\ Exists (fun c => is_digit c = true) l /\
   Exists (fun c => is_op_char c = true) l /\ exists c, last_opt l = Some c /\ in_set_b c = true).
Proof. exact is_arithmetic_iff. Qed.

Theorem C19_classify_bool : forall l : str, is_arithmetic l = arith_desc l.
Proof. exact is_arithmetic_desc. Qed.

(** (1) Precedence and associativity, for every expression tree, any leaf type,
    with arbitrary redundant parentheses: the Pratt parser of pest with cicada's
    table gives the tree back from its rendering; [render] parenthesises exactly
    where the standard reading requires (power tightest and right-associative,
    then times and divide, then plus and minus, left-associative). *)
Theorem C19_pratt_std : forall (L : Type) (q : ptree L) (fuel : nat),
  (2 * tot (render q) + 1 <= fuel)%nat -> pratt_tree fuel (render q) = Ok (strip q).
Proof. exact @pratt_tree_render. Qed.

(** the same for any table with positive binding powers: parentheses where the
    binding powers require them *)
Theorem C19_pratt : forall (L : Type) (prec : op -> N) (left : op -> bool),
  (forall o, (0 < prec o)%N) ->
  forall (q : ptree L) (fuel : nat),
  (2 * tot (flat prec left q) + 1 <= fuel)%nat ->
  pratt prec left (fun l => Ok (Leaf l)) (fun a o b => Ok (Node o a b)) fuel (flat prec left q) = Ok (strip q).
Proof. exact pratt_roundtrip. Qed.

(** (2) Integer mode: evaluating inside the parser is evaluating the tree, and outside
    the known classes the value is the reference value (wrap-around, truncating
    division, exact powers wrapped), with overflow checks on and off. *)
Theorem C19_int : forall (checks : bool) (fuel : nat) (ps : list (pair str)) (t : tree str),
  pratt_tree fuel ps = Ok t -> classes checks t = [] -> eval_int checks fuel ps = Ok (ref_eval t).
Proof. exact eval_int_ref. Qed.

Theorem C19_eval_is_fold : forall (checks : bool) (fuel : nat) (ps : list (pair str)) (t : tree str),
  pratt_tree fuel ps = Ok t -> eval_int checks fuel ps = eval_tree checks t.
Proof.
  exact (fun checks fuel ps t H =>
           pratt_fold str Z prec_of is_left int_prim (int_infix checks) fuel ps t H).
Qed.

(** (4) Crash freedom of integer evaluation: false of the faithful model. *)
Definition C19_nocrash_full : Prop :=
  forall (checks : bool) (line : str) (r : res Z),
    run_calculator checks line = RInt r -> exists v, r = Ok v.

Definition w_lit := s2l "99999999999999999999 + 1".
Definition w_pow := s2l "2 ^ 64".
Definition w_neg := s2l "2 ^ -1".
Definition w_trunc := s2l "2 ^ 4294967296".

Theorem C19_nocrash_refuted : ~ C19_nocrash_full.
Proof.
  intros H. destruct (H false w_lit (Panic SLit)) as [v Hv]; [vm_compute; reflexivity|discriminate].
Qed.

(** one witness per class *)
Example C19_witnesses :
  (* an out-of-range literal panics in both profiles, through the gate *)
  try_run_calculator true w_lit = Some (RInt (Panic SLit)) /\
  try_run_calculator false w_lit = Some (RInt (Panic SLit)) /\
  Known_C19 false w_lit = true /\
  (* overflow in pow: panic with overflow checks, 0 without *)
  try_run_calculator true w_pow = Some (RInt (Panic SPow)) /\
  try_run_calculator false w_pow = Some (RInt (Ok 0)) /\
  Known_C19 true w_pow = true /\ Known_C19 false w_pow = false /\
  (* a negative exponent: panic with overflow checks, a meaningless 0 without *)
  try_run_calculator true w_neg = Some (RInt (Panic SPow)) /\
  try_run_calculator false w_neg = Some (RInt (Ok 0)) /\
  Known_C19 false w_neg = true /\
  (* exponent truncation: 1 in both profiles where wrap-around arithmetic gives 0 *)
  try_run_calculator true w_trunc = Some (RInt (Ok 1)) /\
  try_run_calculator false w_trunc = Some (RInt (Ok 1)) /\
  Known_C19 false w_trunc = true.
Proof. vm_compute. repeat split. Qed.

(** the low 32 bits of 2^32 are zero: the implementation computes 2^0 = 1 *)
Theorem C19_trunc_reference : wrap64 (2 ^ 4294967296) = 0.
Proof. exact trunc_witness. Qed.

(** Outside the known classes integer evaluation returns the reference value of the
    line's tree -- in particular it does not crash. *)
Theorem C19_nocrash_partial : forall (checks : bool) (line : str) (r : res Z),
  run_calculator checks line = RInt r -> Known_C19 checks line = false ->
  exists t, line_tree line = Some t /\ r = Ok (ref_eval t).
Proof. exact run_calculator_partial. Qed.

(** Without overflow checks only an unreadable literal stops the evaluation of a tree. *)
Theorem C19_nocrash_release : forall t : tree str,
  lits_ok t = true -> exists v, eval_tree false t = Ok v.
Proof. exact eval_tree_release. Qed.

Check C19_classify : forall l : str,
  is_arithmetic l = true <->
  (Forall (fun c => in_set_a c = true) l /\ Exists (fun c => is_digit c = true) l /\
   Exists (fun c => is_op_char c = true) l /\ exists c, last_opt l = Some c /\ in_set_b c = true).
Check C19_pratt_std : forall (L : Type) (q : ptree L) (fuel : nat),
  (2 * tot (render q) + 1 <= fuel)%nat -> pratt_tree fuel (render q) = Ok (strip q).
Check C19_int : forall (checks : bool) (fuel : nat) (ps : list (pair str)) (t : tree str),
  pratt_tree fuel ps = Ok t -> classes checks t = [] -> eval_int checks fuel ps = Ok (ref_eval t).
Check C19_nocrash_partial : forall (checks : bool) (line : str) (r : res Z),
  run_calculator checks line = RInt r -> Known_C19 checks line = false ->
  exists t, line_tree line = Some t /\ r = Ok (ref_eval t).

(** Non-vacuity. *)
Example C19_nonvacuous_classify :
  is_arithmetic (s2l "(1 + 2) * 3") = true /\ is_arithmetic (s2l "ls -l") = false /\
  is_arithmetic (s2l "1 +") = false /\ is_arithmetic (s2l "1.5+2 ") = true.
Proof. vm_compute. repeat split. Qed.

(** 1 - (2 - 3) * 4 ^ (5 ^ 6) ^ 7 with a redundant pair around the 1: the rendering has
    parentheses around 2 - 3 (lower level on the right of minus ... times) and around
    5 ^ 6 (left operand of the right-associative power) only, plus the redundant pair *)
Definition ex_q : ptree nat :=
  QNode Sub (QPar (QLeaf 1%nat))
    (QNode Mul (QNode Sub (QLeaf 2%nat) (QLeaf 3%nat))
               (QNode Pow (QLeaf 4%nat) (QNode Pow (QNode Pow (QLeaf 5%nat) (QLeaf 6%nat)) (QLeaf 7%nat)))).
Example C19_nonvacuous_pratt :
  render ex_q =
    [PExpr [PNum 1%nat]; POp Sub; PExpr [PNum 2%nat; POp Sub; PNum 3%nat]; POp Mul; PNum 4%nat; POp Pow;
     PExpr [PNum 5%nat; POp Pow; PNum 6%nat]; POp Pow; PNum 7%nat] /\
  pratt_tree (2 * tot (render ex_q) + 1) (render ex_q) = Ok (strip ex_q).
Proof. vm_compute. split; reflexivity. Qed.

Example C19_nonvacuous_int :
  run_calculator true (s2l " 1 - (2 - 3)*4 ^ 2^3 / -7") = RInt (Ok (-9361)) /\
  Known_C19 true (s2l " 1 - (2 - 3)*4 ^ 2^3 / -7") = false /\
  run_calculator true (s2l "9223372036854775807 + 1") = RInt (Ok (-9223372036854775808)) /\
  Known_C19 true (s2l "9223372036854775807 + 1") = false /\
  run_calculator true (s2l "-9223372036854775808 / -1") = RInt (Ok (-9223372036854775808)) /\
  run_calculator true (s2l "-7 / 2") = RInt (Ok (-3)) /\
  run_calculator true (s2l "5 / 0") = RInt (Ok 9223372036854775807) /\
  run_calculator true (s2l "3 ^ 39") = RInt (Ok 4052555153018976267) /\
  Known_C19 true (s2l "3 ^ 39") = false /\ Known_C19 true (s2l "3 ^ 40") = true /\
  run_calculator true (s2l "1 +") = RSyntax.
Proof. vm_compute. repeat split. Qed.

Print Assumptions gen_is_expected.
Print Assumptions C19_classify.
Print Assumptions C19_pratt_std.
Print Assumptions C19_pratt.
Print Assumptions C19_int.
Print Assumptions C19_eval_is_fold.
Print Assumptions C19_nocrash_refuted.
Print Assumptions C19_witnesses.
Print Assumptions C19_nocrash_partial.
Print Assumptions C19_nocrash_release.
