(** C06 -- the job table tracks exactly the live jobs under every order of child events.
    Statements only; proofs are in Proofs/JobsProofs.v and Proofs/JobsInv.v, the
    decidable specification (valid / good) in Proofs/JobsSpec.v. The model
    (Model/Jobs.v) follows /repo after the repairs bbf8fc1, 2503a9b, ac01883,
    ac20f13, 1687e77. *)
From Cicada Require Import Model.Jobs Proofs.JobsSpec Proofs.JobsProofs Proofs.JobsInv.
From Coq Require Import ZArith List Bool.
Import ListNotations.
Local Open Scope Z_scope.

(** Full statement: after every valid history -- launches of foreground and
    background jobs of any size with fresh pids in any order, per process
    (stop cont)* then exit|kill, any interleaving, every delivery point
    (foreground wait of another job, or the prompt-time poll) -- the state
    after the last operation is good: after a poll that leaves nothing pending
    the table lists exactly the jobs with a live process, each process Running /
    Stopped as it is, a job Stopped iff all its live members are stopped; a
    foreground wait returns exactly when no member runs, with the last member's
    status. Every prefix of a valid history is valid, so this is a statement
    about the state after every operation. *)
Definition C06_full_statement : Prop := forall h, valid h = true -> good h = true.

Theorem C06_full : C06_full_statement.
Proof. intros h V. apply (valid_good h V). Qed.

(** The invariant behind it, after every operation of every valid history:
    well-formed table (unique ordered ids, distinct groups, no pid twice, no
    empty job, job Stopped iff every member is in its stopped set), a parked stop
    and a parked continue never coexist, and the true state of every launched
    process is what the table says once the parked statuses are applied. *)
Theorem C06_invariant : forall h, valid h = true ->
  exists C, all_events h = C ++ r_pend (run h) /\ INV (r_sh (run h)) C (launched h).
Proof. intros h V. destruct (valid_good h V) as ((C & G1 & G2 & _) & _). exists C. auto. Qed.

(** Clause "unique ids, a new job takes the smallest unused one": every
    history (valid or not, any statuses, any pids). *)
Theorem C06_ids : forall h,
  NoDup (map jid (tab (r_sh (run h)))) /\
  forall gid pid bg, (forall j, In j (tab (r_sh (run h))) -> jgid j <> gid) ->
    exists k, least_unused k (tab (r_sh (run h))) /\
      In (new_job k gid pid bg) (insert_job (tab (r_sh (run h))) gid pid bg) /\
      forall j, In j (tab (r_sh (run h))) -> In j (insert_job (tab (r_sh (run h))) gid pid bg).
Proof. exact ids_unique_and_least. Qed.

(** Recording an exit / kill removes exactly the first occurrence of the pid
    from the first job of its group, for every table and every pid vector. *)
Theorem C06_remove_pid : forall t gid pid, remove_pid_from_job t gid pid = remove_spec t gid pid.
Proof. exact remove_pid_exact. Qed.

(** Regression: the witnesses of the five defects repaired in /repo are valid
    histories and are good now (at every prefix). *)
Example C06_regressions :
  forallb (fun w => andb (valid w) (forallb (fun k => good (firstn k w)) (seq 0 (S (length w)))))
    [w_count_waited; w_stop_cont_parked; w_exit_among_stopped; w_partial_continue;
     [Launch 9 [9; 3] false; Wait 9 [9; 3] [Exited 9 0; Exited 3 0]; Poll []]] = true.
Proof. vm_compute. reflexivity. Qed.

(** Non-vacuity: histories meeting the hypothesis, with pid vectors not
    ascending, background exits reaped by a foreground wait, kills, stop and
    continue of members of multi-process jobs and of single-process jobs. *)
Example C06_nonvacuous :
  valid w_good = true /\ valid w_exit_only = true /\
  map (fun j => (jpids j, jst j)) (tab (r_sh (run (firstn 5 w_exit_only)))) = [([6], Running)] /\
  map (fun j => (jpids j, jstopped j, jst j)) (tab (r_sh (run w_partial_continue))) = [([5; 6], [6], Running)] /\
  map (fun j => (jpids j, jstopped j, jst j)) (tab (r_sh (run w_exit_among_stopped))) = [([5], [5], Stopped)].
Proof. vm_compute. repeat split. Qed.

Check C06_full : forall h, valid h = true -> good h = true.

Print Assumptions C06_full.
Print Assumptions C06_invariant.
Print Assumptions C06_ids.
Print Assumptions C06_remove_pid.
