(** C06 -- the job table tracks exactly the live jobs under every order of child events.
    Statements only; proofs are in Proofs/JobsProofs.v and Proofs/JobsInv.v, the
    decidable specification (valid / good / known) in Proofs/JobsSpec.v. *)
From Cicada Require Import Model.Jobs Proofs.JobsSpec Proofs.JobsProofs Proofs.JobsInv.
From Coq Require Import ZArith List.
Import ListNotations.
Local Open Scope Z_scope.

(** Full statement: after every valid history (per process (stop cont)* then
    exit|kill, any interleaving, any delivery point, pids in any order) the
    state after the last operation is good: after a poll that leaves nothing
    pending the table lists exactly the jobs with a live process, Stopped iff
    all live members are stopped; a foreground wait returns exactly when no
    member runs, with the last member's status. Every prefix of a valid
    history is valid, so this speaks about the state after every operation. *)
Definition C06_full : Prop := forall h, valid h = true -> good h = true.

(** It is false of the faithful model, for four separate mechanisms. *)
Theorem C06_refuted : ~ C06_full.
Proof. intros H. specialize (H w_count_waited eq_refl). vm_compute in H. discriminate. Qed.

Theorem C06_refuted_count_waited :
  valid w_count_waited = true /\ good w_count_waited = false /\ known_member_stop w_count_waited = true /\
  (* the wait returned (not blocked) with the exit of pid 9 still pending *)
  r_blocked (run w_count_waited) = false /\ r_pend (run w_count_waited) = [Exited 9 5].
Proof. vm_compute. repeat split. Qed.

Theorem C06_refuted_stop_cont_parked :
  valid w_stop_cont_parked = true /\ good w_stop_cont_parked = false /\
  known_stop_cont_parked w_stop_cont_parked = true /\
  map jst (tab (r_sh (run w_stop_cont_parked))) = [Stopped] /\ m_cont (mp (r_sh (run w_stop_cont_parked))) = [5].
Proof. vm_compute. repeat split. Qed.

Theorem C06_refuted_exit_among_stopped :
  valid w_exit_among_stopped = true /\ good w_exit_among_stopped = false /\
  known_member_stop w_exit_among_stopped = true /\
  map (fun j => (jpids j, jstopped j, jst j)) (tab (r_sh (run w_exit_among_stopped))) = [([5], [5], Running)].
Proof. vm_compute. repeat split. Qed.

Theorem C06_refuted_partial_continue :
  valid w_partial_continue = true /\ good w_partial_continue = false /\
  known_member_stop w_partial_continue = true /\
  map (fun j => (jpids j, jstopped j, jst j)) (tab (r_sh (run w_partial_continue))) = [([5; 6], [6], Stopped)].
Proof. vm_compute. repeat split. Qed.

(** The partial statement, excluding exactly the known classes. NOT proved in
    full (stop / continue of single-process jobs is the open part); proved for
    the exit / kill fragment below, which lies inside it. *)
Definition C06_partial_statement : Prop := forall h, valid h = true -> known h = false -> good h = true.

(** Exit / kill fragment, full strength: any number of jobs and processes, pid
    vectors in any order, foreground and background, every interleaving and
    every delivery point (foreground wait of another job, or the poll). *)
Theorem C06_partial_exit_only : forall h, valid h = true -> exit_only h = true -> good h = true.
Proof. intros h V X. apply (exit_only_good h V X). Qed.

Theorem C06_exit_only_inside_partial : forall h, exit_only h = true -> known h = false.
Proof. exact exit_only_not_known. Qed.

(** The invariant behind it holds after every operation of such a history:
    unique ordered ids, distinct groups, no pid twice, no empty job, and a
    launched process is alive iff it is a member of a job and no exit / kill
    of it is parked. *)
Theorem C06_exit_only_invariant : forall h, valid h = true -> exit_only h = true ->
  exists C, all_events h = C ++ r_pend (run h) /\ INV (r_sh (run h)) C (launched h).
Proof.
  intros h V X. destruct (exit_only_good h V X) as ((C & G1 & G2 & _) & _). exists C. auto.
Qed.

(** Clause "unique ids, a new job takes the smallest unused one": full
    strength, every history (valid or not, any statuses, any pids). *)
Theorem C06_ids : forall h,
  NoDup (map jid (tab (r_sh (run h)))) /\
  forall gid pid bg, (forall j, In j (tab (r_sh (run h))) -> jgid j <> gid) ->
    exists k, least_unused k (tab (r_sh (run h))) /\
      In (new_job k gid pid bg) (insert_job (tab (r_sh (run h))) gid pid bg) /\
      forall j, In j (tab (r_sh (run h))) -> In j (insert_job (tab (r_sh (run h))) gid pid bg).
Proof. exact ids_unique_and_least. Qed.

(** Recording an exit / kill removes exactly the first occurrence of the pid
    from the first job of its group and drops the job when it was the last
    one -- for every table and every pid vector (since /repo bbf8fc1). *)
Theorem C06_remove_pid : forall t gid pid, remove_pid_from_job t gid pid = remove_spec t gid pid.
Proof. exact remove_pid_exact. Qed.

(** A foreground wait parks every status of a non-member, in order, applies
    none of them to the table and keeps blocking (also for stop / continue). *)
Theorem C06_wait_parks_others : forall q s gid pids lastp n c st,
  (forall j, In j (tab s) -> jgid j <> 0) -> (c < n)%nat ->
  (forall e, In e q -> memZ (ev_pid e) pids = false) ->
  wait_loop q s gid pids lastp n c st = mkwres (mksh (tab s) (handle_sigchld (mp s) q)) st true [].
Proof. exact wait_parks_others. Qed.

(** Non-vacuity: valid histories that meet the hypotheses -- pid vectors not
    ascending, background exits reaped by a foreground wait, kills, several
    polls -- and are good at every prefix; [w_good] additionally stops and
    continues a single-process job (outside the proved fragment, inside the
    partial statement). *)
Example C06_nonvacuous :
  valid w_exit_only = true /\ exit_only w_exit_only = true /\
  forallb (fun k => good (firstn k w_exit_only)) (seq 0 8) = true /\
  map jpids (tab (r_sh (run (firstn 5 w_exit_only)))) = [[6]] /\
  valid w_good = true /\ known w_good = false /\ exit_only w_good = false /\
  forallb (fun k => good (firstn k w_good)) (seq 0 8) = true.
Proof. vm_compute. repeat split. Qed.

Check C06_partial_exit_only : forall h, valid h = true -> exit_only h = true -> good h = true.
Check C06_refuted : ~ C06_full.

Print Assumptions C06_refuted.
Print Assumptions C06_refuted_count_waited.
Print Assumptions C06_refuted_stop_cont_parked.
Print Assumptions C06_refuted_exit_among_stopped.
Print Assumptions C06_refuted_partial_continue.
Print Assumptions C06_partial_exit_only.
Print Assumptions C06_exit_only_inside_partial.
Print Assumptions C06_exit_only_invariant.
Print Assumptions C06_ids.
Print Assumptions C06_remove_pid.
Print Assumptions C06_wait_parks_others.
