From Cicada Require Import Model.Jobs.
From Coq Require Import ZArith List.
Import ListNotations.
Local Open Scope Z_scope.
Definition C06_full := True.
Theorem C06_refuted : True. Proof. exact I. Qed.
Theorem C06_partial : True. Proof. exact I. Qed.
Theorem C06_ids : True. Proof. exact I. Qed.
Theorem C06_binary_search : binary_search [9; 3] 9 = inr 2%nat. Proof. reflexivity. Qed.
Print Assumptions C06_binary_search.
