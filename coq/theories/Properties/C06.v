From Cicada Require Import Model.Jobs Proofs.JobsSpec.
From Coq Require Import ZArith List.
Import ListNotations.
Definition C06_full : Prop := forall h, valid h = true -> good h = true.
Example C06_regressions : forallb good [w_count_waited; w_stop_cont_parked; w_exit_among_stopped; w_partial_continue; w_good; w_exit_only] = true.
Proof. vm_compute. reflexivity. Qed.
Print Assumptions C06_regressions.
