(** C06 -- the job table tracks exactly the live jobs under every order of child events.
    Statements only; proofs are in Proofs/JobsProofs.v, the decidable
    specification (valid / good / known) in Proofs/JobsSpec.v. *)
From Cicada Require Import Model.Jobs Proofs.JobsSpec Proofs.JobsProofs.
From Coq Require Import ZArith List Sorting.Sorted.
Import ListNotations.
Local Open Scope Z_scope.

(** Full statement: after every valid history (per process (stop cont)* then
    exit|kill, any interleaving, any delivery point, non-monotone pids) the
    state after the last operation is good: after a poll the table lists
    exactly the jobs with a live process, Stopped iff all live members are
    stopped; a foreground wait returns exactly when no member runs, with the
    last member's status. *)
Definition C06_full : Prop := forall h, valid h = true -> good h = true.

(** It is false of the faithful model, for five separate mechanisms. *)
Theorem C06_refuted : ~ C06_full.
Proof. intros H. specialize (H w_unsorted eq_refl). vm_compute in H. discriminate. Qed.

Theorem C06_refuted_unsorted :
  valid w_unsorted = true /\ good w_unsorted = false /\ known_unsorted w_unsorted = true /\
  (* the exit of pid 9 is never recorded: the job is still listed after the poll *)
  map jpids (tab (r_sh (run w_unsorted))) = [[9]].
Proof. vm_compute. repeat split. Qed.

Theorem C06_refuted_count_waited :
  valid w_count_waited = true /\ good w_count_waited = false /\ known_member_stop w_count_waited = true /\
  (* the wait returned (not blocked) with the exit of pid 9 still pending *)
  r_blocked (run w_count_waited) = false /\ r_pend (run w_count_waited) = [Exited 9 5].
Proof. vm_compute. repeat split. Qed.

Theorem C06_refuted_stop_cont_parked :
  valid w_stop_cont_parked = true /\ good w_stop_cont_parked = false /\
  known_stop_cont_parked w_stop_cont_parked = true /\
  map jst (tab (r_sh (run w_stop_cont_parked))) = [Stopped] /\ m_cont (mp (r_sh (run w_stop_cont_parked))) = [5].
Proof. vm_compute. repeat split. Qed.

Theorem C06_refuted_exit_among_stopped :
  valid w_exit_among_stopped = true /\ good w_exit_among_stopped = false /\
  known_member_stop w_exit_among_stopped = true /\
  map (fun j => (jpids j, jstopped j, jst j)) (tab (r_sh (run w_exit_among_stopped))) = [([5], [5], Running)].
Proof. vm_compute. repeat split. Qed.

Theorem C06_refuted_partial_continue :
  valid w_partial_continue = true /\ good w_partial_continue = false /\
  known_member_stop w_partial_continue = true /\
  map (fun j => (jpids j, jstopped j, jst j)) (tab (r_sh (run w_partial_continue))) = [([5; 6], [6], Stopped)].
Proof. vm_compute. repeat split. Qed.

(** Clause "unique ids, a new job takes the smallest unused one": full
    strength, every history (valid or not, any statuses, any pids). *)
Theorem C06_ids : forall h,
  NoDup (map jid (tab (r_sh (run h)))) /\
  forall gid pid bg, (forall j, In j (tab (r_sh (run h))) -> jgid j <> gid) ->
    exists k, least_unused k (tab (r_sh (run h))) /\
      In (new_job k gid pid bg) (insert_job (tab (r_sh (run h))) gid pid bg) /\
      forall j, In j (tab (r_sh (run h))) -> In j (insert_job (tab (r_sh (run h))) gid pid bg).
Proof. exact ids_unique_and_least. Qed.

(** The transcribed core::slice::binary_search_by finds every member of an
    ascending vector at its index, and only members; on [9;3] it misses 9. *)
Theorem C06_binary_search :
  (forall l x, StronglySorted Z.lt l ->
     (In x l -> exists i, binary_search l x = inl i /\ (i < length l)%nat /\ nth i l 0 = x) /\
     (forall i, binary_search l x = inl i -> (i < length l)%nat /\ nth i l 0 = x)) /\
  (binary_search [9; 3] 9 = inr 2%nat /\ In 9 [9; 3]).
Proof.
  split; [intros l x H; apply binary_search_asc, ssorted_asc, H | exact binary_search_unsorted].
Qed.

(** Partial statement (what is proved outside the failing class "unsorted"),
    for every table, not only reachable ones:
    - with ascending pid vectors, recording an exit / kill removes exactly that
      pid from the first job of its group and drops the job when it was the
      last one (the behaviour of the proposed [position] repair);
    - a foreground wait parks every status of a non-member, in order, applies
      none of them to the table and keeps blocking.
    The history-level partial statement
      forall h, valid h = true -> known h = false -> good h = true
    is NOT proved; it is checked on the implementation by the oracle of
    drive/c06.py over the enumerated and random histories. *)
Definition Known_C06_table (t : table) : bool := known_table t.

Theorem C06_partial :
  (forall t gid pid, Known_C06_table t = false -> remove_pid_from_job t gid pid = remove_spec t gid pid) /\
  (forall q s gid pids lastp n c st,
     (forall j, In j (tab s) -> jgid j <> 0) -> (c < n)%nat ->
     (forall e, In e q -> memZ (ev_pid e) pids = false) ->
     wait_loop q s gid pids lastp n c st = mkwres (mksh (tab s) (handle_sigchld (mp s) q)) st true []).
Proof. split; [exact remove_pid_exact_b | exact wait_parks_others]. Qed.

(** Non-vacuity: a valid history outside every known class -- non-monotone
    pids, background and foreground jobs, a background exit reaped by the
    foreground wait, a stop and a continue of a single-process job -- is good,
    its tables have ascending pid vectors, and removal there is not the identity. *)
Example C06_nonvacuous :
  valid w_good = true /\ known w_good = false /\ good w_good = true /\
  forallb (fun k => good (firstn k w_good)) (seq 0 8) = true /\
  Known_C06_table (tab (r_sh (run (firstn 3 w_good)))) = false /\
  map jpids (remove_pid_from_job (tab (r_sh (run (firstn 3 w_good)))) 10 20) = [[40; 50]; [7]; [10; 30]].
Proof. vm_compute. repeat split. Qed.

Check C06_full : Prop.
Check C06_refuted : ~ C06_full.
Check C06_ids : forall h,
  NoDup (map jid (tab (r_sh (run h)))) /\
  forall gid pid bg, (forall j, In j (tab (r_sh (run h))) -> jgid j <> gid) ->
    exists k, least_unused k (tab (r_sh (run h))) /\
      In (new_job k gid pid bg) (insert_job (tab (r_sh (run h))) gid pid bg) /\
      forall j, In j (tab (r_sh (run h))) -> In j (insert_job (tab (r_sh (run h))) gid pid bg).

Print Assumptions C06_refuted.
Print Assumptions C06_refuted_unsorted.
Print Assumptions C06_refuted_count_waited.
Print Assumptions C06_refuted_stop_cont_parked.
Print Assumptions C06_refuted_exit_among_stopped.
Print Assumptions C06_refuted_partial_continue.
Print Assumptions C06_ids.
Print Assumptions C06_binary_search.
Print Assumptions C06_partial.
