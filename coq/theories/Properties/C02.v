(* C02 -- pipelines: wiring, EOF, every stage started once, status of the last stage.
   Model as of /repo d4ac685 (v0 = the code as it is). *)
From Coq Require Import List Arith Bool ZArith Permutation Lia.
From Cicada Require Import Model.OsLite Model.Pipeline Model.WaitFg
     Proofs.OsLiteProofs Proofs.PipelineProofs Proofs.ChildProofs Proofs.EofProofs Proofs.SigProofs Proofs.WaitFgProofs.
Import ListNotations.

Definition nf (_ : nat) := false.
Definition yes (_ : nat) := true.
Definition sh0 := mkp t_std [].
Definition ext := mks FNone [] KExt [].

(* wiring: descriptor 0 of stage idx is the read end of pipe idx-1 (the shell's stdin for the first
   stage; the file / here-string pipe if the stage redirects its input), descriptor 1 the write end of
   pipe idx (the shell's stdout, or the capture pipe, for the last), BEFORE the stage's own output
   redirections (those are C04) *)
Definition wired (i0 o0 e0 : obj) (n : nat) (capture : bool) (idx : nat) (st : stage) (k : kid) : Prop :=
  k_idx k = idx /\
  (k_out k = OExec ->
     lookup (tab (k_proc k)) 0 = Some (std_in i0 idx st, false) /\
     (s_redirs st = [] ->
        lookup (tab (k_proc k)) 1 = Some (std_out o0 n capture idx, false) /\
        lookup (tab (k_proc k)) 2 = Some (std_err e0 n capture idx, false))).

Definition C02_full : Prop :=
  forall v fail_at openable pl sh i0 o0 e0,
  std_ok (tab sh) i0 o0 e0 -> runs_in_shell pl = false ->
  let r := run_pipeline v fail_at openable pl sh in
  res_error r = false ->
  kids_ok (wired i0 o0 e0 (length (p_stages pl)) (p_capture pl)) 0 (p_stages pl) (res_kids r).

Theorem C02_wiring : C02_full.
Proof.
  intros v fail_at openable pl sh i0 o0 e0 SO NB r NE.
  pose proof (kids_ok_bound _ _ _ _ (pipeline_kids v openable fail_at pl sh i0 o0 e0 SO NB NE)) as K.
  eapply kids_ok_impl; [|exact K]. cbn beta. intros idx st k (KS & BD). cbn in BD.
  split; [apply KS|]. intro HE.
  destruct (kid_std_fds _ _ _ _ _ _ _ _ _ _ _ KS HE) as (A & B & C). split; [exact A|].
  intro NR. rewrite NR in B, C.
  assert (LE : idx <= length (p_stages pl) - 1) by lia.
  rewrite (final_sinks_posix v (p_capture pl) (length (p_stages pl) - 1) idx [] o0 e0 LE (or_intror (or_introl eq_refl))) in B, C.
  replace (S (length (p_stages pl) - 1)) with (length (p_stages pl)) in B, C by lia.
  split; [exact B | exact C].
Qed.

(* EOF: who holds which pipe end once all stages are started.  For every n, every initial table that holds
   nothing but inherited objects, every plan: the shell holds no pipe end at all; an exec'd stage can hold the
   write end of stage pipe j only if it IS stage j (on 1, or on 2 after 2>&1) and the read end of pipe j only
   if it is stage j+1 (on 0).  With C02_wiring (a stage without redirections does hold them) the holders of
   the write end of pipe k are exactly {stage k} and of its read end exactly {stage k+1}: a reader sees EOF
   as soon as its upstream stage is gone, a writer gets SIGPIPE as soon as its downstream stage is gone. *)
Definition holds_only_own_ends (pc idx : nat) (k : kid) : Prop :=
  k_out k = OExec ->
  forall x j c,
    (lookup (tab (k_proc k)) x = Some (OPipeW (PStage j), c) -> j = idx /\ idx < pc /\ (x = 1 \/ x = 2)) /\
    (lookup (tab (k_proc k)) x = Some (OPipeR (PStage j), c) -> idx = S j /\ x = 0).

Theorem C02_eof : forall fail_at openable pl sh i0 o0 e0,
  std_ok (tab sh) i0 o0 e0 -> inh_only (tab sh) -> runs_in_shell pl = false ->
  let r := run_pipeline v0 fail_at openable pl sh in
  (forall x o c, lookup (tab (res_shell r)) x = Some (o, c) -> exists i, o = OInh i) /\
  (res_error r = false ->
   kids_ok (fun idx _ k => holds_only_own_ends (length (p_stages pl) - 1) idx k) 0 (p_stages pl) (res_kids r)).
Proof.
  intros fail_at openable pl sh i0 o0 e0 SO IO NB r. split.
  - intros x o c H. destruct (shell_restored v0 fail_at openable pl sh NB) as (T & _); [auto|].
    fold r in T. rewrite (T x) in H. eapply IO; eauto.
  - intro NE. eapply kids_ok_impl; [|apply (pipeline_kids v0 openable fail_at pl sh i0 o0 e0 SO NB NE)].
    cbn beta. intros idx st k KS HE. eapply kid_holders; eauto.
Qed.
Check C02_eof : forall fail_at openable pl sh i0 o0 e0,
  std_ok (tab sh) i0 o0 e0 -> inh_only (tab sh) -> runs_in_shell pl = false ->
  let r := run_pipeline v0 fail_at openable pl sh in
  (forall x o c, lookup (tab (res_shell r)) x = Some (o, c) -> exists i, o = OInh i) /\
  (res_error r = false ->
   kids_ok (fun idx _ k => holds_only_own_ends (length (p_stages pl) - 1) idx k) 0 (p_stages pl) (res_kids r)).

(* every stage is forked exactly once and the shell's table is what it was *)
Theorem C02_once_and_shell_holds_nothing : forall v openable pl sh,
  runs_in_shell pl = false ->
  let r := run_pipeline v nf openable pl sh in
  length (res_kids r) = length (p_stages pl) /\ teq_tab (res_shell r) (tab sh).
Proof.
  intros v openable pl sh NB.
  destruct (shell_restored v nf openable pl sh NB) as (A & B).
  - unfold capture_fails, nf. rewrite Bool.andb_false_r. discriminate.
  - split; [|exact A].
    destruct (p_stages pl) as [|s m] eqn:ES.
    { unfold run_pipeline. rewrite ES. reflexivity. }
    apply B.
    unfold run_pipeline. rewrite ES.
    cbn zeta.
    assert (G : forall m k p, snd (mk_pipes nf m k p) = false).
    { induction m0 as [|m0 IH]; intros k p; cbn; auto.
      destruct (p_pipe (PStage k) p) as [p1 fds]. specialize (IH (S k) p1).
      destruct (mk_pipes nf m0 (S k) p1) as [[p2 rest] e]. cbn in *. exact IH. }
    specialize (G (length m) 0 sh). destruct (mk_pipes nf (length m) 0 sh) as [[p2 rest] e]. cbn in G. subst e.
    unfold mk_capture, nf. rewrite NB. destruct (p_capture pl).
    + destruct (p_pipe PCapOut p2) as [q1 o]. destruct (p_pipe PCapErr q1) as [q2 e].
      destruct (run_stages v openable rest (Some o) (Some e) true 0 (s :: m) q2). reflexivity.
    + destruct (run_stages v openable rest None None false 0 (s :: m) p2). reflexivity.
Qed.

(* here-string on a non-first stage (was refuted before /repo 567a7de; now an instance of C02_wiring) *)
Example C02_here_nonfirst :
  let r := run_pipeline v0 nf yes (mkplan [ext; mks FHere [] KExt []] false) sh0 in
  map (fun k => obj_at (tab (k_proc k)) 0) (res_kids r) = [Some (OInh 0); Some (OPipeR (PHere 1))]
  /\ map (fun k => map (obj_at (tab (k_proc k))) [3; 4; 5]) (res_kids r) = [[None; None; None]; [None; None; None]].
Proof. vm_compute. split; reflexivity. Qed.

(* signal dispositions at the start of every stage ("a stage that exits without reading: upstream gets SIGPIPE" needs SIGPIPE at
   its default in the upstream program): for every pipeline, every stage position, with or without here-strings anywhere, the
   program starts with SIGPIPE, SIGTSTP, SIGQUIT, SIGINT at default and every other signal as the shell had it; the shell itself
   has SIGPIPE at default again after the line (main.rs sets it to default at start-up: the hypothesis) *)
Theorem C02_stage_signals : forall sts D cs D',
  D SgPipe = false ->
  stages_disp sts D = (cs, D') ->
  length cs = length sts /\ D' SgPipe = false /\
  Forall (fun c => c SgPipe = false /\ c SgTstp = false /\ c SgQuit = false /\ c SgInt = false /\
                   forall n, c (SgOther n) = D (SgOther n)) cs.
Proof. exact stages_disp_spec. Qed.
Example C02_stage_signals_nonvacuous :
  let D0 : disp := fun s => match s with SgTstp | SgQuit | SgOther 25 => true | _ => false end in
  let '(cs, D') := stages_disp [mks FHere [] KExt []; ext; mks FHere [] KExt []] D0 in
  map (fun c => map c [SgPipe; SgTstp; SgQuit; SgInt; SgOther 25]) cs
  = [[false; false; false; false; true]; [false; false; false; false; true]; [false; false; false; false; true]]
  /\ D' SgPipe = false /\ D' SgTstp = true.
Proof. vm_compute. repeat split; reflexivity. Qed.

(* the status: whatever order the stages finish in *)
Theorem C02_wait : forall pids evs rest,
  NoDup pids -> ~ In 0%Z pids ->
  fg_schedule pids evs ->
  let r := wait_fg_job pids (evs ++ rest) in
  r_consumed r = length evs /\
  r_left r = rest /\
  (exists e, In e evs /\ ws_pid e = last pids 0%Z) /\
  (forall e, In e evs -> ws_pid e = last pids 0%Z ->
     (ws_kind e = 0%Z \/ ws_kind e = 1%Z) /\
     r_status r = term_status e /\
     (ws_kind e = 0%Z -> r_status r = ws_val e) /\
     (ws_kind e = 1%Z -> r_status r = (128 + ws_val e)%Z)).
Proof. exact wait_fg_job_spec. Qed.

Theorem C02_wait_order_independent : forall pids evs1 evs2 rest1 rest2 e,
  NoDup pids -> ~ In 0%Z pids ->
  fg_schedule pids evs1 -> fg_schedule pids evs2 ->
  ws_pid e = last pids 0%Z -> In e evs1 -> In e evs2 ->
  r_status (wait_fg_job pids (evs1 ++ rest1)) = r_status (wait_fg_job pids (evs2 ++ rest2)).
Proof. exact wait_fg_job_order_independent. Qed.

Example C02_wait_nonvacuous : fg_schedule ex_pids ex_evs.
Proof. exact ex_schedule. Qed.

Print Assumptions C02_wiring.
Print Assumptions C02_eof.
Print Assumptions C02_stage_signals.
Print Assumptions C02_wait.
Print Assumptions C02_wait_order_independent.
Print Assumptions C02_once_and_shell_holds_nothing.
