(* C02 -- pipelines: wiring, EOF, every stage started once, status of the last stage. *)
From Coq Require Import List Arith Bool ZArith Permutation.
From Cicada Require Import Model.OsLite Model.Pipeline Model.WaitFg
     Proofs.OsLiteProofs Proofs.PipelineProofs Proofs.WaitFgProofs.
Import ListNotations.

Definition nf (_ : nat) := false.
Definition yes (_ : nat) := true.
Definition sh0 := mkp t_std [].
Definition ext := mks FNone [] KExt [].
Definition obj_at (t : table) (fd : nat) : option obj := option_map fst (lookup t fd).

(* wiring demanded by the property (together with C04 for stdin redirections): descriptor 0 of
   stage idx is std_in, descriptor 1 is std_out, BEFORE the stage's own output redirections *)
Definition wired (T0 : table) (n : nat) (capture : bool) (k : kid) (st : stage) : Prop :=
  k_out k = OExec -> s_redirs st = [] ->
  obj_at (tab (k_proc k)) 0 = option_map (fun o => std_in o (k_idx k) st) (obj_at T0 0) /\
  obj_at (tab (k_proc k)) 1 = option_map (fun o => std_out o n capture (k_idx k)) (obj_at T0 1).
Definition C02_full : Prop :=
  forall pl, let r := run_pipeline false nf yes pl sh0 in
  Forall2 (wired t_std (length (p_stages pl)) (p_capture pl)) (res_kids r) (p_stages pl).

(* echo a | cat <<< x : stage 1 reads the upstream pipe, nobody holds the read end of the here-string
   pipe (the word is lost; the shell's write gets SIGPIPE) *)
Example C02_refuted_here :
  let r := run_pipeline false nf yes (mkplan [ext; mks FHere [] KExt []] false) sh0 in
  map (fun k => obj_at (tab (k_proc k)) 0) (res_kids r) = [Some (OInh 0); Some (OPipeR (PStage 0))].
Proof. vm_compute. reflexivity. Qed.
Theorem C02_refuted : ~ C02_full.
Proof.
  intro H. specialize (H (mkplan [ext; mks FHere [] KExt []] false)).
  vm_compute in H. inversion H as [|k0 s0 ks ss _ H1]; subst. inversion H1 as [|k1 s1 ks1 ss1 W _]; subst.
  destruct (W eq_refl eq_refl) as (W0 & _). vm_compute in W0. discriminate.
Qed.
(* the same plan on the model of the repaired code *)
Example C02_here_repaired :
  let r := run_pipeline true nf yes (mkplan [ext; mks FHere [] KExt []] false) sh0 in
  map (fun k => obj_at (tab (k_proc k)) 0) (res_kids r) = [Some (OInh 0); Some (OPipeR (PHere 1))]
  /\ map (fun k => map (obj_at (tab (k_proc k))) [3; 4; 5]) (res_kids r) = [[None; None; None]; [None; None; None]].
Proof. vm_compute. split; reflexivity. Qed.

(* every stage is forked exactly once and the shell ends up holding no pipe end (so EOF can
   propagate: no writer is left in the shell) -- every n, every initial table, both variants,
   here-strings and redirections included *)
Theorem C02_once_and_shell_holds_nothing : forall fixed openable pl sh,
  is_single_builtin pl = false ->
  let r := run_pipeline fixed nf openable pl sh in
  length (res_kids r) = length (p_stages pl) /\ teq_tab (res_shell r) (tab sh).
Proof.
  intros fixed openable pl sh NB.
  destruct (shell_restored fixed nf openable pl sh NB) as (A & B).
  - unfold capture_fails, nf. rewrite Bool.andb_false_r. discriminate.
  - split; [|exact A].
    destruct (p_stages pl) as [|s m] eqn:ES.
    { unfold run_pipeline. rewrite ES. reflexivity. }
    apply B.
    unfold run_pipeline. rewrite ES.
    cbn zeta.
    assert (G : forall m k p, snd (mk_pipes nf m k p) = false).
    { induction m0 as [|m0 IH]; intros k p; cbn; auto.
      destruct (p_pipe (PStage k) p) as [p1 fds]. specialize (IH (S k) p1).
      destruct (mk_pipes nf m0 (S k) p1) as [[p2 rest] e]. cbn in *. exact IH. }
    specialize (G (length m) 0 sh). destruct (mk_pipes nf (length m) 0 sh) as [[p2 rest] e]. cbn in G. subst e.
    unfold mk_capture, nf. rewrite NB. destruct (p_capture pl).
    + destruct (p_pipe PCapOut p2) as [q1 o]. destruct (p_pipe PCapErr q1) as [q2 e].
      destruct (run_stages fixed openable rest (Some o) (Some e) true 0 (s :: m) q2). reflexivity.
    + destruct (run_stages fixed openable rest None None false 0 (s :: m) p2). reflexivity.
Qed.

(* the status: whatever order the stages finish in *)
Theorem C02_wait : forall pids evs rest,
  NoDup pids -> ~ In 0%Z pids ->
  fg_schedule pids evs ->
  let r := wait_fg_job pids (evs ++ rest) in
  r_consumed r = length evs /\
  r_left r = rest /\
  (exists e, In e evs /\ ws_pid e = last pids 0%Z) /\
  (forall e, In e evs -> ws_pid e = last pids 0%Z ->
     (ws_kind e = 0%Z \/ ws_kind e = 1%Z) /\
     r_status r = term_status e /\
     (ws_kind e = 0%Z -> r_status r = ws_val e) /\
     (ws_kind e = 1%Z -> r_status r = (128 + ws_val e)%Z)).
Proof. exact wait_fg_job_spec. Qed.

Theorem C02_wait_order_independent : forall pids evs1 evs2 rest1 rest2 e,
  NoDup pids -> ~ In 0%Z pids ->
  fg_schedule pids evs1 -> fg_schedule pids evs2 ->
  ws_pid e = last pids 0%Z -> In e evs1 -> In e evs2 ->
  r_status (wait_fg_job pids (evs1 ++ rest1)) = r_status (wait_fg_job pids (evs2 ++ rest2)).
Proof. exact wait_fg_job_order_independent. Qed.

Example C02_wait_nonvacuous : fg_schedule ex_pids ex_evs.
Proof. exact ex_schedule. Qed.

Print Assumptions C02_wait.
Print Assumptions C02_wait_order_independent.
Print Assumptions C02_once_and_shell_holds_nothing.
Print Assumptions C02_refuted.
