(** C15 -- script arguments, functions, source, exit statuses. Statements only. *)
From Cicada Require Import Base.Chars Base.Peg Gen.LocustGrammar Model.Script Model.ScriptAst Model.Args Model.ShellScript
  Proofs.ArgsProofs Proofs.SetEProofs Proofs.ScriptProofs.
From Coq Require Import ZArith String Ascii.

Definition S2 (s : string) : str := map N_of_ascii (list_ascii_of_string s).

(** 1. Positional parameters. For every token without a newline and every
    argument vector, expand_args_for_single_token performs exactly the single
    left-to-right substitution [Subst] (a dollar, an optional open brace, digits
    or an at-sign, an optional close brace; n-th argument or nothing; at-sign =
    arguments 1.. joined by blanks; substituted text is not rescanned). The
    callers pass args = [script path or function name; arg1; ...]
    (run_exp: &args[1..] of [cicada; script; ...]; try_run_func: [cicada; name; ...]),
    so key 0 is the script / function name. *)
Theorem C15_args : forall args token out,
  no_nl token = true -> Subst args token out ->
  expand_args_for_single_token token args = Ok out.
Proof. exact expand_single_subst. Qed.

Theorem C15_args_spec_functional : forall args tok o1 o2, Subst args tok o1 -> Subst args tok o2 -> o1 = o2.
Proof. intros args tok o1 o2 H1 H2. exact (Subst_det args tok o1 H1 o2 H2). Qed.

Ltac subst_step :=
  lazymatch goal with
  | |- Subst _ nil nil => apply S_nil
  | |- Subst ?a (?c :: ?r) ?o =>
      let t := eval vm_compute in (if N.eqb c c_dollar then ref_at r else None) in
      lazymatch t with
      | None => apply S_copy; [vm_compute; reflexivity|]
      | Some (?k, ?tail) =>
          let v := eval vm_compute in (key_value a k) in
          lazymatch v with
          | Some ?vv =>
              let o' := eval vm_compute in (skipn (List.length vv) o) in
              refine (S_ref a r k tail vv o' _ _ _); [vm_compute; reflexivity | vm_compute; reflexivity | ]
          end
      end
  end.

(** ... but a token that holds a newline (a quoted multi-line word) is never
    expanded: the dot of the splitter regex does not match a newline. *)
Theorem C15_args_newline_refuted :
  exists args token out, Subst args token out /\ out <> token /\
    expand_args_for_single_token token args = Ok token.
Proof.
  exists [S2 "s"; S2 "A"], (10%N :: S2 "$1"), (10%N :: S2 "A"). split; [|split].
  - vm_compute. repeat subst_step.
  - discriminate.
  - apply expand_single_newline. reflexivity.
Qed.

(** 2. Status of a function call (try_run_func, repaired in ec16ecd): the status of the last
    CommandResult of the body's run_lines, 0 if there is none (also after a syntax error in the body).
    With C14_interp: for every well-formed body it is the status of the last pipeline of the last
    command that the structured semantics executes in the body. *)
Definition func_status_full : Prop := forall crs, func_call_status crs = script_status crs.
Theorem C15_func_status_list : func_status_full.
Proof. exact func_status_last. Qed.

Definition func_call_result {W : Type} (o : option (outcome W)) : Z :=
  match o with Some (Done _ crs _ _) => func_call_status crs | _ => 0%Z end.

Theorem C15_func_status :
  forall (W : Type) (run_line : W -> str -> W * list Z) (for_words : W -> str -> W * list str)
         (set_var : W -> str -> str -> W) (eoe : W -> bool) (n : nat),
  (forall w, eoe w = false) ->
  forall b, wf_block b = true -> forall d w r txt, (depth_block b < d)%nat ->
  func_call_result (Some (run_exp W run_line for_words set_var eoe n d (TNode r txt (kids_of_block b)) false w)) =
  match sem_block W run_line for_words set_var n b false w with
  | Done _ crs _ _ => last_or_zero crs
  | _ => 0%Z
  end.
Proof.
  intros W run_line for_words set_var eoe n He b Hwf d w r txt Hd.
  rewrite (ScriptProofs.run_exp_sem W run_line for_words set_var eoe n He b Hwf d false w r txt Hd).
  destruct (sem_block W run_line for_words set_var n b false w); reflexivity.
Qed.

(** 3. set -e. In a flat script (commands only) the transcribed loop, with
    exit_on_error on, stops after the first failing command ... *)
Theorem C15_sete_flat :
  forall (W : Type) (run_line : W -> str -> W * list Z)
         (rif : ttree -> bool -> W -> outcome W) (rfor rwh : ttree -> W -> outcome W) lines,
  forallb wf_line lines = true ->
  forall w acc, last_is_nonzero acc = false ->
  exp_loop W run_line (fun _ => true) rif rfor rwh false (map cmd_node lines) w acc =
  let '(w1, crs) := run_until_fail W run_line lines w in Done w1 (acc ++ crs) false false.
Proof. exact flat_set_e. Qed.

(** ... but inside an if / loop body the early return only leaves that body:
    set -e / if true / false / echo in-if / fi / echo after-if
    runs `echo after-if` after the failure and ends with status 0. *)
Definition sete_script : str := S2 "set -e
if true
false
echo in-if
fi
echo after-if
".
(* world = (log, exit_on_error flag) *)
Definition se_run (w : list str * bool) (l : str) : (list str * bool) * list Z :=
  let '(log, e) := w in
  ((log ++ [l])%list, e || str_eqb l (S2 "set -e"), [if str_eqb l (S2 "false") then 1%Z else 0%Z]).
Definition se_result : option (outcome (list str * bool)) :=
  run_lines (list str * bool) se_run (fun w _ => (w, nil)) (fun w _ _ => w) snd 8 sete_script (nil, false).

Definition sete_full : Prop :=
  se_result = Some (Done ([S2 "set -e"; S2 "true"; S2 "false"], true) [0%Z; 1%Z] false false).

Theorem C15_sete_nested_refuted :
  se_result = Some (Done ([S2 "set -e"; S2 "true"; S2 "false"; S2 "echo after-if"], true) [0%Z; 1%Z; 0%Z] false false)
  /\ ~ sete_full.
Proof. split; [vm_compute; reflexivity|]. unfold sete_full. vm_compute. discriminate. Qed.

(** 3b. set -e with function calls and `source`: exit_on_error and the function table are shell
    state threaded through run_script / run_lines / try_run_func (Model/ShellScript.v), the flag
    being reset where the code resets it (end of run_script). INSTANCES computed on that model
    (the unbounded statement over all flat scripts with calls is NOT proved; the model is tied to
    the binary by layer L2b on every run, 120 / 600 generated scripts):
    A  a successful call between `set -e` and the failing command: the script ends at `fail7`, status 7;
    B  the failing command inside the called function: the body is left at once and so is the script;
    C  (refutation) a `source` between them: run_script's reset clears the flag, `notreached` runs, status 0. *)
Definition ex_ext (l : str) : Z := if str_eqb l (S2 "fail7") then 7%Z else 0%Z.
Definition ex_files (p : str) : option str :=
  if str_eqb p (S2 "a.sh") then Some (S2 "function ok_fn {
  in_fn
}
set -e
one
ok_fn a
two
fail7
notreached
") else if str_eqb p (S2 "b.sh") then Some (S2 "function bad-fn() {
  start
  fail7
  fn_notreached
}
set -e
one
bad-fn
notreached
") else if str_eqb p (S2 "c.sh") then Some (S2 "set -e
one
source lib.sh
two
fail7
notreached
") else if str_eqb p (S2 "lib.sh") then Some (S2 "in_lib
") else None.
Definition ex_run (p : string) : list str * Z :=
  let '(w, st) := run_script ex_ext ex_files 8 30 (mk_shs false nil nil) (S2 p) in (s_log w, st).

Theorem C15_sete_calls_instances :
  ex_run "a.sh" = ([S2 "one"; S2 "in_fn"; S2 "two"; S2 "fail7"], 7%Z) /\
  ex_run "b.sh" = ([S2 "one"; S2 "start"; S2 "fail7"], 7%Z).
Proof. vm_compute. split; reflexivity. Qed.

Theorem C15_sete_source_refuted :
  ex_run "c.sh" = ([S2 "one"; S2 "in_lib"; S2 "two"; S2 "fail7"; S2 "notreached"], 0%Z).
Proof. vm_compute. reflexivity. Qed.

(** The property, in full, and its refutation on the faithful model. *)
Definition C15_full : Prop :=
  (forall args token out, Subst args token out -> expand_args_for_single_token token args = Ok out)
  /\ func_status_full /\ sete_full.
Theorem C15_refuted : ~ C15_full.
Proof. intros [_ [_ H]]. exact (proj2 C15_sete_nested_refuted H). Qed.

(** Function table: both header spellings, names with - and _, body lines kept verbatim. *)
Example C15_function_table :
  function_table (S2 "echo a
function f-1 {
  echo $1
}
function _g()   {
echo g
}
f-1 x
") = ([(S2 "f-1", S2 "  echo $1
"); (S2 "_g", S2 "echo g
")], S2 "echo a
f-1 x
").
Proof. vm_compute. reflexivity. Qed.

Check C15_args : forall args token out,
  no_nl token = true -> Subst args token out ->
  expand_args_for_single_token token args = Ok out.

(** Non-vacuity of C15_args:  x${1}y$@-$9$  with [s; a; b c]  gives  xaya b c-$ *)
Example C15_nonvacuous :
  no_nl (S2 "x${1}y$@-$9$") = true /\
  Subst [S2 "s"; S2 "a"; S2 "b c"] (S2 "x${1}y$@-$9$") (S2 "xaya b c-$").
Proof.
  split; [reflexivity|]. vm_compute. repeat subst_step.
Qed.

Print Assumptions C15_args.
Print Assumptions C15_args_newline_refuted.
Print Assumptions C15_func_status.
Print Assumptions C15_func_status_list.
Print Assumptions C15_sete_flat.
Print Assumptions C15_sete_nested_refuted.
Print Assumptions C15_refuted.
Print Assumptions C15_sete_calls_instances.
Print Assumptions C15_sete_source_refuted.
