(** C15 -- script arguments, functions, source, exit statuses. Statements only. *)
From Cicada Require Import Base.Chars Base.Peg Gen.LocustGrammar Model.Script Model.ScriptAst Model.Args Model.ShellScript
  Proofs.ArgsProofs Proofs.SetEProofs Proofs.ScriptProofs Proofs.ShellProofs Proofs.ShellCallsProofs Proofs.ShellFlagProofs Proofs.LocustParse Proofs.ShellTextProofs Proofs.ShellSourceProofs Proofs.LocustIndent Proofs.ShellIndentProofs Proofs.ShellRefEqProofs Proofs.ShellAndOrProofs Proofs.ShellRef3EqProofs.
From Coq Require Import ZArith String Ascii.

Definition S2 (s : string) : str := map N_of_ascii (list_ascii_of_string s).
Definition it_tab : str := (9 :: nil)%N.

(** 1. Positional parameters. For every token without a newline and every
    argument vector, expand_args_for_single_token performs exactly the single
    left-to-right substitution [Subst] (a dollar, an optional open brace, digits
    or an at-sign, an optional close brace; n-th argument or nothing; at-sign =
    arguments 1.. joined by blanks; substituted text is not rescanned). The
    callers pass args = [script path or function name; arg1; ...]
    (run_exp: &args[1..] of [cicada; script; ...]; try_run_func: [cicada; name; ...]),
    so key 0 is the script / function name. *)
Theorem C15_args : forall args token out,
  no_nl token = true -> Subst args token out ->
  expand_args_for_single_token token args = Ok out.
Proof. exact expand_single_subst. Qed.

Theorem C15_args_spec_functional : forall args tok o1 o2, Subst args tok o1 -> Subst args tok o2 -> o1 = o2.
Proof. intros args tok o1 o2 H1 H2. exact (Subst_det args tok o1 H1 o2 H2). Qed.

Ltac subst_step :=
  lazymatch goal with
  | |- Subst _ nil nil => apply S_nil
  | |- Subst ?a (?c :: ?r) ?o =>
      let t := eval vm_compute in (if N.eqb c c_dollar then ref_at r else None) in
      lazymatch t with
      | None => apply S_copy; [vm_compute; reflexivity|]
      | Some (?k, ?tail) =>
          let v := eval vm_compute in (key_value a k) in
          lazymatch v with
          | Some ?vv =>
              let o' := eval vm_compute in (skipn (List.length vv) o) in
              refine (S_ref a r k tail vv o' _ _ _); [vm_compute; reflexivity | vm_compute; reflexivity | ]
          end
      end
  end.

(** ... but a token that holds a newline (a quoted multi-line word) is never
    expanded: the dot of the splitter regex does not match a newline. *)
Theorem C15_args_newline_refuted :
  exists args token out, Subst args token out /\ out <> token /\
    expand_args_for_single_token token args = Ok token.
Proof.
  exists [S2 "s"; S2 "A"], (10%N :: S2 "$1"), (10%N :: S2 "A"). split; [|split].
  - vm_compute. repeat subst_step.
  - discriminate.
  - apply expand_single_newline. reflexivity.
Qed.

(** 2. Status of a function call (try_run_func, repaired in ec16ecd): the status of the last
    CommandResult of the body's run_lines, 0 if there is none (also after a syntax error in the body).
    With C14_interp: for every well-formed body it is the status of the last pipeline of the last
    command that the structured semantics executes in the body. *)
Definition func_status_full : Prop := forall crs, func_call_status crs = script_status crs.
Theorem C15_func_status_list : func_status_full.
Proof. exact func_status_last. Qed.

Definition func_call_result {W : Type} (o : option (outcome W)) : Z :=
  match o with Some (Done _ crs _ _) => func_call_status crs | _ => 0%Z end.

Theorem C15_func_status :
  forall (W : Type) (run_line : W -> str -> W * list Z) (for_words : W -> str -> W * list str)
         (set_var : W -> str -> str -> W) (eoe : W -> bool) (e : bool) (n : nat),
  (forall w, eoe w = e) ->
  forall b, wf_block b = true -> forall d w r txt, (depth_block b < d)%nat ->
  func_call_result (Some (run_exp W run_line for_words set_var eoe n d (TNode r txt (kids_of_block b)) false w)) =
  match sem_block W run_line for_words set_var e n b false w with
  | Done _ crs _ _ => last_or_zero crs
  | _ => 0%Z
  end.
Proof.
  intros W run_line for_words set_var eoe e n He b Hwf d w r txt Hd.
  rewrite (ScriptProofs.run_exp_sem W run_line for_words set_var eoe e n He b Hwf d false w r txt Hd).
  destruct (sem_block W run_line for_words set_var e n b false w); reflexivity.
Qed.

(** 2b. ... spelled out over ARBITRARY STATUS SEQUENCES: without set -e a flat body runs every
    line, its result list is the concatenation of the lines' result vectors in order (flat_all);
    try_run_func takes the LAST element (func_call_status = last_or_zero). So when each line yields
    one status [st l], the status of the call is [st] of the LAST line of the body -- whatever
    failed before it (it is NOT the status of the last failing line). *)
Theorem C15_func_status_seq :
  forall (W : Type) (run_line : W -> str -> W * list Z) (eoe : W -> bool)
         (rif : ttree -> bool -> W -> outcome W) (rfor rwh : ttree -> W -> outcome W) (st : str -> Z),
  (forall w, eoe w = false) -> (forall w l, snd (run_line w l) = (st l :: nil)) ->
  forall lines last w, forallb wf_line (lines ++ (last :: nil)) = true ->
  match exp_loop W run_line eoe rif rfor rwh false (map cmd_node (lines ++ (last :: nil))) w nil with
  | Done _ crs _ _ => func_call_status crs = st last /\ crs = map st (lines ++ (last :: nil))
  | _ => False
  end.
Proof.
  intros W run_line eoe rif rfor rwh st Hoff Hst lines last w Hwf.
  rewrite (flat_all W run_line eoe rif rfor rwh Hoff _ Hwf w nil).
  pose proof (run_all_statuses W run_line st Hst (lines ++ (last :: nil)) w) as H.
  destruct (run_all W run_line (lines ++ (last :: nil)) w) as [w1 crs]. cbn [snd app] in *. subst crs.
  split; [|reflexivity]. rewrite map_app. cbn [map]. unfold func_call_status.
  induction (map st lines) as [|x l IH]; [reflexivity|]. cbn [app].
  assert (Hne : (l ++ (st last :: nil))%list <> nil) by (destruct l; discriminate).
  destruct (l ++ (st last :: nil))%list as [|y r] eqn:E; [congruence|]. exact IH.
Qed.

(** the same through the shell-state model and the generated grammar (instances): bodies
    `fail7 ; ok`, `ok ; fail7 ; ok`, a nested call, and callers that look at the status with
    `&&`, `||`, `if` and as the script's last command. *)
Definition fs_ext (l : str) : Z := if str_eqb l (S2 "fail7") then 7%Z else 0%Z.
Definition fs_files (p : str) : option str :=
  if str_eqb p (S2 "d.sh") then Some (S2 "function f {
  fail7
  ok1
}
function g {
  ok2
  fail7
  ok3
}
function h {
  f
  fail7
}
f && chained
f || notreached
g && chained2
h || recovered
if f
then_branch
else
else_branch
fi
g
") else None.
Example C15_func_status_instances :
  (let '(w, st) := run_script fs_ext fs_files 8 30 (mk_shs false nil nil) (S2 "d.sh") in (s_log w, st)) =
  ([S2 "fail7"; S2 "ok1"; S2 "chained";
    S2 "fail7"; S2 "ok1";
    S2 "ok2"; S2 "fail7"; S2 "ok3"; S2 "chained2";
    S2 "fail7"; S2 "ok1"; S2 "fail7"; S2 "recovered";
    S2 "fail7"; S2 "ok1"; S2 "then_branch";
    S2 "ok2"; S2 "fail7"; S2 "ok3"], 0%Z).
Proof. vm_compute. reflexivity. Qed.

(** 3. set -e. In a flat script (commands only) the transcribed loop, with
    exit_on_error on, stops after the first failing command ... *)
Theorem C15_sete_flat :
  forall (W : Type) (run_line : W -> str -> W * list Z)
         (rif : ttree -> bool -> W -> outcome W) (rfor rwh : ttree -> W -> outcome W) lines,
  forallb wf_line lines = true ->
  forall w acc, last_is_nonzero acc = false ->
  exp_loop W run_line (fun _ => true) rif rfor rwh false (map cmd_node lines) w acc =
  let '(w1, crs) := run_until_fail W run_line lines w in Done w1 (acc ++ crs) false false.
Proof. exact flat_set_e. Qed.

(** 3a. set -e, nested bodies (FULL, since 05253ef): with exit_on_error on, the transcribed
    interpreter on the ideal tree of ANY well-formed script is the structured semantics with
    e = true, in which the first statement whose last pipeline failed -- inside any nesting of
    if / for / while bodies -- ends every enclosing block and loop, hence the script, and the
    status list ends with the failing status. (Instance e = true of C14_interp.) *)
Theorem C15_sete :
  forall (W : Type) (run_line : W -> str -> W * list Z) (for_words : W -> str -> W * list str)
         (set_var : W -> str -> str -> W) (eoe : W -> bool) (n : nat),
  (forall w, eoe w = true) ->
  forall b, wf_block b = true ->
  forall d in_loop w r txt, (depth_block b < d)%nat ->
  run_exp W run_line for_words set_var eoe n d (TNode r txt (kids_of_block b)) in_loop w =
  sem_block W run_line for_words set_var true n b in_loop w.
Proof. intros W rl fw sv eoe n H. exact (ScriptProofs.run_exp_sem W rl fw sv eoe true n H). Qed.

(** what "stops" means, on the reference semantics: a block whose first statement's last
    pipeline failed runs nothing else *)
Theorem C15_sete_stops :
  forall (W : Type) (run_line : W -> str -> W * list Z) (for_words : W -> str -> W * list str)
         (set_var : W -> str -> str -> W) (n : nat) s rest in_loop w w1 crs c b,
  sem_stmt W run_line for_words set_var true n s in_loop w = Done w1 crs c b ->
  last_is_nonzero crs = true ->
  sem_block W run_line for_words set_var true n (BCons s rest) in_loop w = Done w1 crs false false.
Proof.
  intros W rl fw sv n s rest il w w1 crs c b H Hl.
  rewrite ScriptProofs.sem_block_cons, H. unfold then_, stops. rewrite Hl. reflexivity.
Qed.

(** regression instance (the replay of the defect fixed in 05253ef):
    set -e / if true / false / echo in-if / fi / echo after-if   ends at `false`, status 1. *)
Definition sete_script : str := S2 "set -e
if true
false
echo in-if
fi
echo after-if
".
(* world = (log, exit_on_error flag) *)
Definition se_run (w : list str * bool) (l : str) : (list str * bool) * list Z :=
  let '(log, e) := w in
  ((log ++ [l])%list, e || str_eqb l (S2 "set -e"), [if str_eqb l (S2 "false") then 1%Z else 0%Z]).
Definition se_result : option (outcome (list str * bool)) :=
  run_lines (list str * bool) se_run (fun w _ => (w, nil)) (fun w _ _ => w) snd 8 sete_script (nil, false).

Definition sete_full : Prop :=
  se_result = Some (Done ([S2 "set -e"; S2 "true"; S2 "false"], true) [0%Z; 1%Z] false false).

Example C15_sete_nested_regression : sete_full.
Proof. vm_compute. reflexivity. Qed.

(** 3b. set -e with function calls and `source`: exit_on_error and the function table are shell
    state threaded through run_script / run_lines / try_run_func (Model/ShellScript.v), the flag
    saved at the start of run_script and restored at its end. INSTANCES computed on that model
    (the unbounded statement over all flat scripts with calls is NOT proved; the model is tied to
    the binary by layer L2b on every run, 120 / 600 generated scripts):
    A  a successful call between `set -e` and the failing command: the script ends at `fail7`, status 7;
    B  the failing command inside the called function: the body is left at once and so is the script;
    C  (regression, 3fef4c9) a `source` between them: the caller's flag survives, the script ends at `fail7`. *)
Definition ex_ext (l : str) : Z := if str_eqb l (S2 "fail7") then 7%Z else 0%Z.
Definition ex_files (p : str) : option str :=
  if str_eqb p (S2 "a.sh") then Some (S2 "function ok_fn {
  in_fn
}
set -e
one
ok_fn a
two
fail7
notreached
") else if str_eqb p (S2 "b.sh") then Some (S2 "function bad-fn() {
  start
  fail7
  fn_notreached
}
set -e
one
bad-fn
notreached
") else if str_eqb p (S2 "c.sh") then Some (S2 "set -e
one
source lib.sh
two
fail7
notreached
") else if str_eqb p (S2 "lib.sh") then Some (S2 "in_lib
") else None.
Definition ex_run (p : string) : list str * Z :=
  let '(w, st) := run_script ex_ext ex_files 8 30 (mk_shs false nil nil) (S2 p) in (s_log w, st).

Theorem C15_sete_calls_instances :
  ex_run "a.sh" = ([S2 "one"; S2 "in_fn"; S2 "two"; S2 "fail7"], 7%Z) /\
  ex_run "b.sh" = ([S2 "one"; S2 "start"; S2 "fail7"], 7%Z).
Proof. vm_compute. split; reflexivity. Qed.

Example C15_sete_source_regression :
  ex_run "c.sh" = ([S2 "one"; S2 "in_lib"; S2 "two"; S2 "fail7"], 7%Z).
Proof. vm_compute. reflexivity. Qed.

(** 3c. set -e lifted to the shell-state model (function calls, `source`), UNBOUNDED:
    exit_on_error, once on, stays on through every line -- external command, `set -e`, a call of
    a function whose body has ANY shape (the whole run_exp family preserves the flag:
    Proofs/ShellProofs.v family_pres), `source` of ANY file (run_script restores the caller's flag) -- *)
Theorem C15_flag_preserved : forall ext file_text n fuel,
  (forall w l, s_eoe w = true -> s_eoe (fst (exec_line ext file_text n fuel w l)) = true) /\
  (forall w p, s_eoe w = true -> s_eoe (fst (run_script ext file_text n fuel w p)) = true).
Proof. intros. exact (exec_pres ext file_text n fuel). Qed.

(** ... hence, with set -e in effect, a flat sequence of such lines (any number of calls and sources)
    stops after the first line whose status is not 0, and the flag is still on afterwards. The status
    of a call line is that of the last command of the body (C15_func_status). *)
Theorem C15_sete_calls : forall ext file_text n fuel rif rfor rwh lines w,
  forallb wf_line lines = true -> s_eoe w = true ->
  exp_loop shs (exec_line ext file_text n fuel) s_eoe rif rfor rwh false (map cmd_node lines) w nil =
  (let '(w1, crs) := run_until_fail shs (exec_line ext file_text n fuel) lines w in Done w1 crs false false)
  /\ s_eoe (fst (run_until_fail shs (exec_line ext file_text n fuel) lines w)) = true.
Proof. intros. apply sete_calls_flat; assumption. Qed.

(** 3d. COMBINED: nested blocks, function calls and `source` together (shell-state model), with
    `set -e` executed anywhere before (top level, inside a body, inside a called function): once
    exit_on_error is on, every well-formed block the interpreter enters -- its command lines being
    external commands, `set -e`, calls of functions with bodies of any shape, `source` of any file
    -- runs as the structured semantics with set -e in effect (first failing statement at any depth
    ends it). Instance of C14_interp_inv with Inv := flag on, preserved by C15_flag_preserved. *)
Theorem C15_sete_combined : forall ext file_text n fuel b, wf_block b = true ->
  forall d in_loop w r txt, (depth_block b < d)%nat -> s_eoe w = true ->
  run_exp shs (exec_line ext file_text n fuel) no_words no_setvar s_eoe n d (TNode r txt (kids_of_block b)) in_loop w =
  sem_block shs (exec_line ext file_text n fuel) no_words no_setvar true n b in_loop w.
Proof. intros ext file_text n fuel. exact (sete_nested_calls ext file_text n fuel). Qed.

(** ... and the remainder of the very body in which `set -e` has just been executed (results so far
    [acc], the last of them not failing -- `set -e` itself returns 0): the rest of the loop is the
    semantics with set -e in effect of the remaining statements. What is NOT covered by one
    equation: the enclosing bodies of that body as wholes (their first part ran with the flag off). *)
Theorem C15_sete_rest_of_body : forall ext file_text n fuel b, wf_block b = true ->
  forall d in_loop w acc, (depth_block b <= S d)%nat -> s_eoe w = true -> last_is_nonzero acc = false ->
  exp_loop shs (exec_line ext file_text n fuel) s_eoe
    (run_exp_if shs (exec_line ext file_text n fuel) no_words no_setvar s_eoe n d)
    (run_exp_for shs (exec_line ext file_text n fuel) no_words no_setvar s_eoe n d)
    (run_exp_while shs (exec_line ext file_text n fuel) no_words no_setvar s_eoe n d)
    in_loop (kids_of_block b) w acc =
  prepend_i shs acc (sem_block shs (exec_line ext file_text n fuel) no_words no_setvar true n b in_loop w).
Proof. intros ext file_text n fuel. exact (sete_rest_of_body ext file_text n fuel). Qed.

(** 3e. Output redirections on shell commands. A `set -e`, `source FILE [args]` or function-call line is
    executed according to its words WITHOUT the redirections (`> f`, `>> f`, `1> f`, `2> f`, `2>> f`
    written as separate words): two lines with the same such words behave identically, so
    `source ./lib.sh v1 > load.log` runs in the current shell exactly as `source ./lib.sh v1` does
    (functions, flag and log persist). (`exit N` is not part of this model: its redirected forms are
    tied to the binary by layer L2 only.) *)
Theorem C15_source_with_redirection : forall ext file_text n fuel w l1 l2,
  cmd_words l1 = cmd_words l2 -> is_shell_words w (cmd_words l1) = true ->
  exec_pipe ext file_text n fuel w l1 = exec_pipe ext file_text n fuel w l2.
Proof. intros ext file_text n. exact (pipe_redirection_irrelevant ext file_text n). Qed.

Example C15_redirection_words :
  cmd_words (S2 "source ./lib.sh v1 > load.log") = cmd_words (S2 "source ./lib.sh v1") /\
  cmd_words (S2 "set -e 2> /dev/null") = cmd_words (S2 "set -e") /\
  cmd_words (S2 "source lib0.sh >> out.log 2> /dev/null") = (S2 "source" :: S2 "lib0.sh" :: nil) /\
  cmd_words (S2 "my-fn a b 1> f") = cmd_words (S2 "my-fn a b").
Proof. vm_compute. repeat split. Qed.

(** through the model and the grammar: the sourced file's function and `set -e` given with redirections *)
Definition rd_files (p : str) : option str :=
  if str_eqb p (S2 "r.sh") then Some (S2 "source lib.sh v1 > load.log
g
set -e 2> /dev/null
fail7
notreached
") else if str_eqb p (S2 "lib.sh") then Some (S2 "function g {
  in_g
}
in_lib
") else None.
Example C15_redirection_instances :
  (let '(w, st) := run_script fs_ext rd_files 8 30 (mk_shs false nil nil) (S2 "r.sh") in (s_log w, st)) =
  ([S2 "in_lib"; S2 "in_g"; S2 "fail7"], 7%Z).
Proof. vm_compute. reflexivity. Qed.

(** 3f. set -e THROUGH FUNCTION CALLS TO ANY DEPTH, UNBOUNDED, with the executed-command trace explicit
    (round 9; Proofs/ShellCallsProofs.v). Model: Model/ShellScript.v. LEVEL: the already-parsed
    representation -- a text (script or function body) enters through [flat_parsed text lines]: the
    generated grammar parses it to one EXP pair whose children are exactly the CMD pairs of [lines]
    followed by pairs with empty text (EOI). Function definitions enter through function_table / set_funcs
    and [tab_ok ft rt]: every body text of the shell's function table [ft] is flat_parsed to the body
    lines in [rt]. A line ([ok_line]) is non-empty, not break / continue, and ONE pipeline
    (line_to_cmds l = [l]); by its words it is `set -e`, a call of a function of the table, an external
    command (status [ext l], appended to the log), or a line without words. `source` is excluded.
    Reference: [unfold rt fuel lines] = the external commands in execution order with every call replaced
    by the commands of the body, recursively (None when the call depth exceeds the fuel -- the model's
    out-of-fuel case -- or a `source` line is met); [upto_fail ext cmds] = cmds cut after the first command
    whose status is not 0; [fail_status ext cmds] = that status, 0 if there is none (C15_first_failure).

    C15_sete_calls_trace: for EVERY function table, every text of such lines, every state in which
    exit_on_error is on: run_lines ends normally, the commands executed (the log) are exactly
    upto_fail of the inlined sequence -- nothing after the first failing command runs, at whatever call
    depth it sits, and every command runs in order if none fails --, the status is that command's, the
    flag is still on and the function table unchanged. *)
Theorem C15_sete_calls_trace : forall ext file_text n ft rt, tab_ok ft rt ->
  forall fuel text lines cmds w,
  flat_parsed text lines -> forallb ok_line lines = true -> unfold rt fuel lines = Some cmds ->
  s_eoe w = true -> s_funcs w = ft ->
  exists sts,
    run_lines shs (exec_line ext file_text n fuel) no_words no_setvar s_eoe n text w =
      Some (Done (mk_shs true ft (s_log w ++ upto_fail ext cmds)) sts false false)
    /\ script_status sts = fail_status ext cmds.
Proof. exact sete_calls_lines. Qed.

(** ... and the script as a whole: a file whose text, once function_table has taken the function
    definitions out (any number, any order, later ones win), is `set -e` followed by such lines.
    run_script returns the status of the first failing command in execution order (0 if none), has
    run exactly the commands up to it, and restores the caller's flag. *)
Theorem C15_sete_calls_script : forall ext file_text n fuel path text defs text_new rt sete lines cmds w,
  file_text path = Some text -> function_table text = (defs, text_new) ->
  tab_ok (set_funcs defs (s_funcs w)) rt ->
  flat_parsed text_new (sete :: lines) ->
  cmd_words sete = [[115; 101; 116]; [45; 101]]%N ->
  forallb ok_line (sete :: lines) = true ->
  unfold rt (S fuel) lines = Some cmds ->
  run_script ext file_text n (S (S fuel)) w path =
    (mk_shs (s_eoe w) (set_funcs defs (s_funcs w)) (s_log w ++ upto_fail ext cmds), fail_status ext cmds).
Proof. exact sete_calls_script. Qed.

(** what upto_fail / fail_status are, in words *)
Theorem C15_first_failure : forall ext,
  (forall pre c post, (forall x, In x pre -> ext x = 0%Z) -> ext c <> 0%Z ->
     upto_fail ext (pre ++ c :: post) = (pre ++ [c])%list /\ fail_status ext (pre ++ c :: post) = ext c)
  /\ (forall cmds, (forall x, In x cmds -> ext x = 0%Z) -> upto_fail ext cmds = cmds /\ fail_status ext cmds = 0%Z).
Proof. intro ext. split; [exact (upto_fail_first ext) | exact (upto_fail_none ext)]. Qed.

(** `set -e` at ANY top-level position: the lines before it are external commands run with the flag off
    (all of them run, whatever they return -- e.g. a failing one), then `set -e`, then lines as above. *)
Theorem C15_sete_calls_script_at : forall ext file_text n fuel path text defs text_new rt pre sete lines cmds w,
  file_text path = Some text -> function_table text = (defs, text_new) ->
  tab_ok (set_funcs defs (s_funcs w)) rt ->
  flat_parsed text_new (pre ++ sete :: lines) ->
  s_eoe w = false ->
  forallb ok_line pre = true -> forallb (is_ext_line rt) pre = true ->
  cmd_words sete = [[115; 101; 116]; [45; 101]]%N ->
  forallb ok_line (sete :: lines) = true ->
  unfold rt (S fuel) lines = Some cmds ->
  run_script ext file_text n (S (S fuel)) w path =
    (mk_shs false (set_funcs defs (s_funcs w)) (s_log w ++ pre ++ upto_fail ext cmds), fail_status ext cmds).
Proof. exact sete_calls_script_at. Qed.

(** the two together, spelled out: if the inlined command sequence is [pre ++ c :: post] with every
    command of [pre] succeeding and [c] failing -- wherever [c] sits: top level or any call depth --
    the script has run exactly [pre ++ [c]] (nothing of [post]) and its status is that of [c]; if no
    command fails, all of them have run, in order, and the status is 0. *)
Theorem C15_sete_calls_stops : forall ext file_text n fuel path text defs text_new rt sete lines w,
  file_text path = Some text -> function_table text = (defs, text_new) ->
  tab_ok (set_funcs defs (s_funcs w)) rt ->
  flat_parsed text_new (sete :: lines) ->
  cmd_words sete = [[115; 101; 116]; [45; 101]]%N ->
  forallb ok_line (sete :: lines) = true ->
  (forall pre c post, unfold rt (S fuel) lines = Some (pre ++ c :: post)%list ->
     (forall x, In x pre -> ext x = 0%Z) -> ext c <> 0%Z ->
     run_script ext file_text n (S (S fuel)) w path =
       (mk_shs (s_eoe w) (set_funcs defs (s_funcs w)) (s_log w ++ pre ++ [c]), ext c)) /\
  (forall cmds, unfold rt (S fuel) lines = Some cmds -> (forall x, In x cmds -> ext x = 0%Z) ->
     run_script ext file_text n (S (S fuel)) w path =
       (mk_shs (s_eoe w) (set_funcs defs (s_funcs w)) (s_log w ++ cmds), 0%Z)).
Proof.
  intros ext file_text n fuel path text defs text_new rt sete lines w H1 H2 H3 H4 H5 H6. split.
  - intros pre c post Hu Hp Hc.
    rewrite (sete_calls_script ext file_text n fuel path text defs text_new rt sete lines _ w H1 H2 H3 H4 H5 H6 Hu).
    destruct (upto_fail_first ext pre c post Hp Hc) as [E1 E2]. rewrite E1, E2. reflexivity.
  - intros cmds Hu Hz.
    rewrite (sete_calls_script ext file_text n fuel path text defs text_new rt sete lines _ w H1 H2 H3 H4 H5 H6 Hu).
    destruct (upto_fail_none ext cmds Hz) as [E1 E2]. rewrite E1, E2. reflexivity.
Qed.

(** non-vacuity: a 2-deep call chain, the failing command inside the INNER function; every hypothesis
    of C15_sete_calls_script is met (parses computed with the generated grammar) and its conclusion,
    obtained from the theorem (not by running the model), is: log one, out1, in1, fail7; status 7. *)
Definition nv_text : str := S2 "function inner {
  in1
  fail7
  in_notreached
}
function outer() {
  out1
  inner
  out_notreached
}
set -e
one
outer
notreached
".
Definition nv_files (p : str) : option str := if str_eqb p (S2 "n.sh") then Some nv_text else None.
Definition nv_defs : list (str * str) := Eval vm_compute in fst (function_table nv_text).
Definition nv_main : str := Eval vm_compute in snd (function_table nv_text).
Definition nv_rt : list (str * list str) :=
  [(S2 "outer", [S2 "out1"; S2 "inner"; S2 "out_notreached"]);
   (S2 "inner", [S2 "in1"; S2 "fail7"; S2 "in_notreached"])].
Definition nv_lines : list str := [S2 "one"; S2 "outer"; S2 "notreached"].

Ltac prove_flat_parsed :=
  unfold flat_parsed;
  match goal with |- exists p r pairs rule txt tail, parse_from ?g ?s ?t = _ /\ _ =>
    let res := eval vm_compute in (parse_from g s t) in
    match res with
    | POk ?p ?r ?k =>
        exists p, r, k;
        let m := eval vm_compute in (map (annotate t) k) in
        match m with
        | [TNode ?rule ?txt ?kk] =>
            exists rule, txt, kk; split; [vm_compute; reflexivity | split; vm_compute; reflexivity]
        end
    end
  end.

Example C15_sete_calls_nonvacuous :
  tab_ok (set_funcs nv_defs []) nv_rt /\
  flat_parsed nv_main (S2 "set -e" :: nv_lines) /\
  forallb ok_line (S2 "set -e" :: nv_lines) = true /\
  unfold nv_rt 3 nv_lines =
    Some [S2 "one"; S2 "out1"; S2 "in1"; S2 "fail7"; S2 "in_notreached"; S2 "out_notreached"; S2 "notreached"] /\
  run_script fs_ext nv_files 8 4 (mk_shs false [] []) (S2 "n.sh") =
    (mk_shs false (set_funcs nv_defs []) [S2 "one"; S2 "out1"; S2 "in1"; S2 "fail7"], 7%Z).
Proof.
  assert (Ht : tab_ok (set_funcs nv_defs []) nv_rt).
  { vm_compute. apply tab_cons; [prove_flat_parsed | vm_compute; reflexivity |].
    apply tab_cons; [prove_flat_parsed | vm_compute; reflexivity | apply tab_nil]. }
  assert (Hp : flat_parsed nv_main (S2 "set -e" :: nv_lines)) by prove_flat_parsed.
  assert (Hu : unfold nv_rt 3 nv_lines =
    Some [S2 "one"; S2 "out1"; S2 "in1"; S2 "fail7"; S2 "in_notreached"; S2 "out_notreached"; S2 "notreached"])
    by (vm_compute; reflexivity).
  split; [exact Ht|]. split; [exact Hp|]. split; [vm_compute; reflexivity|]. split; [exact Hu|].
  rewrite (C15_sete_calls_script fs_ext nv_files 8 2 (S2 "n.sh") nv_text nv_defs nv_main nv_rt (S2 "set -e") nv_lines _
             (mk_shs false [] []) eq_refl eq_refl Ht Hp eq_refl eq_refl Hu).
  vm_compute. reflexivity.
Qed.

(** the same chain with `set -e` in the middle of the script, after a failing command *)
Definition nv2_text : str := S2 "function inner {
  in1
  fail7
  in_notreached
}
fail7
zero
set -e
function outer() {
  out1
  inner
  out_notreached
}
one
outer
notreached
".
Definition nv2_files (p : str) : option str := if str_eqb p (S2 "n2.sh") then Some nv2_text else None.
Definition nv2_main : str := Eval vm_compute in snd (function_table nv2_text).
Example C15_sete_calls_at_nonvacuous :
  run_script fs_ext nv2_files 8 4 (mk_shs false [] []) (S2 "n2.sh") =
    (mk_shs false (set_funcs nv_defs []) [S2 "fail7"; S2 "zero"; S2 "one"; S2 "out1"; S2 "in1"; S2 "fail7"], 7%Z).
Proof.
  assert (Ht : tab_ok (set_funcs nv_defs []) nv_rt).
  { vm_compute. apply tab_cons; [prove_flat_parsed | vm_compute; reflexivity |].
    apply tab_cons; [prove_flat_parsed | vm_compute; reflexivity | apply tab_nil]. }
  assert (Hp : flat_parsed nv2_main ([S2 "fail7"; S2 "zero"] ++ S2 "set -e" :: nv_lines)) by prove_flat_parsed.
  assert (Hu : unfold nv_rt 3 nv_lines =
    Some [S2 "one"; S2 "out1"; S2 "in1"; S2 "fail7"; S2 "in_notreached"; S2 "out_notreached"; S2 "notreached"])
    by (vm_compute; reflexivity).
  assert (Hd : function_table nv2_text = (nv_defs, nv2_main)) by (vm_compute; reflexivity).
  rewrite (C15_sete_calls_script_at fs_ext nv2_files 8 2 (S2 "n2.sh") nv2_text nv_defs nv2_main nv_rt
             [S2 "fail7"; S2 "zero"] (S2 "set -e") nv_lines _
             (mk_shs false [] []) eq_refl Hd Ht Hp eq_refl eq_refl eq_refl eq_refl eq_refl Hu).
  vm_compute. reflexivity.
Qed.

(** 3g. THE FLAG AS STATE (round 9b; Proofs/ShellFlagProofs.v). Reference semantics [refl ext rt fuel lines e last]
    = Some (flag afterwards, commands executed in order, status of the last line executed): the lines run
    in order from flag [e]; `set -e` switches the flag on (status 0); an external command is logged and, when
    the flag is on and it fails, ends the list; a call runs the body FROM THE CALLER'S FLAG and hands the
    callee's flag BACK to the caller (a callee may switch it on), and when it comes back with the flag on and a
    non-zero status the caller ends too; nothing switches the flag off (C15_flag_never_off; model side:
    C15_flag_preserved). None = call depth above the fuel, or a `source` line. Same level and line classes as 3f.
    C15_sete_calls_flag_state: from ANY flag, for every table / text / call depth, run_lines of the model is the
    reference: same log, same final flag, same status -- so calls before `set -e` and `set -e` inside a callee
    are covered. C15_sete_calls_flag_state_script: the same for run_script (caller's flag restored). *)
Theorem C15_sete_calls_flag_state : forall ext file_text n ft rt, tab_ok ft rt ->
  forall fuel text lines w e' tr st,
  flat_parsed text lines -> forallb ok_line lines = true -> s_funcs w = ft ->
  refl ext rt fuel lines (s_eoe w) 0%Z = Some (e', tr, st) ->
  exists sts,
    run_lines shs (exec_line ext file_text n fuel) no_words no_setvar s_eoe n text w =
      Some (Done (mk_shs e' ft (s_log w ++ tr)) sts false false)
    /\ script_status sts = st.
Proof. exact flag_state_lines. Qed.

Theorem C15_sete_calls_flag_state_script : forall ext file_text n fuel path text defs text_new rt lines w e' tr st,
  file_text path = Some text -> function_table text = (defs, text_new) ->
  tab_ok (set_funcs defs (s_funcs w)) rt ->
  flat_parsed text_new lines -> forallb ok_line lines = true ->
  refl ext rt fuel lines (s_eoe w) 0%Z = Some (e', tr, st) ->
  run_script ext file_text n (S fuel) w path =
    (mk_shs (s_eoe w) (set_funcs defs (s_funcs w)) (s_log w ++ tr), st).
Proof. exact flag_state_script. Qed.

Theorem C15_flag_never_off : forall ext rt fuel ls last e' tr st,
  refl ext rt fuel ls true last = Some (e', tr, st) -> e' = true.
Proof. exact refl_flag. Qed.

(** instance: a call BEFORE set -e whose body fails (runs on, flag off), `set -e` switched on INSIDE a callee,
    then a failure inside a second call ends the script. Conclusion obtained from the theorem. *)
Definition fl_text : str := S2 "function seton {
  in_seton
  set -e
}
function g {
  fail7
  g_after
}
g
zero
seton
one
g
notreached
".
Definition fl_files (p : str) : option str := if str_eqb p (S2 "fl.sh") then Some fl_text else None.
Definition fl_defs : list (str * str) := Eval vm_compute in fst (function_table fl_text).
Definition fl_main : str := Eval vm_compute in snd (function_table fl_text).
Definition fl_rt : list (str * list str) :=
  [(S2 "g", [S2 "fail7"; S2 "g_after"]); (S2 "seton", [S2 "in_seton"; S2 "set -e"])].
Definition fl_lines : list str := [S2 "g"; S2 "zero"; S2 "seton"; S2 "one"; S2 "g"; S2 "notreached"].
Example C15_sete_calls_flag_state_nonvacuous :
  refl fs_ext fl_rt 3 fl_lines false 0%Z =
    Some (true, [S2 "fail7"; S2 "g_after"; S2 "zero"; S2 "in_seton"; S2 "one"; S2 "fail7"], 7%Z) /\
  run_script fs_ext fl_files 8 4 (mk_shs false [] []) (S2 "fl.sh") =
    (mk_shs false (set_funcs fl_defs []) [S2 "fail7"; S2 "g_after"; S2 "zero"; S2 "in_seton"; S2 "one"; S2 "fail7"], 7%Z).
Proof.
  assert (Ht : tab_ok (set_funcs fl_defs []) fl_rt).
  { vm_compute. apply tab_cons; [prove_flat_parsed | vm_compute; reflexivity |].
    apply tab_cons; [prove_flat_parsed | vm_compute; reflexivity | apply tab_nil]. }
  assert (Hp : flat_parsed fl_main fl_lines) by prove_flat_parsed.
  assert (Hr : refl fs_ext fl_rt 3 fl_lines false 0%Z =
    Some (true, [S2 "fail7"; S2 "g_after"; S2 "zero"; S2 "in_seton"; S2 "one"; S2 "fail7"], 7%Z))
    by (vm_compute; reflexivity).
  split; [exact Hr|].
  rewrite (C15_sete_calls_flag_state_script fs_ext fl_files 8 3 (S2 "fl.sh") fl_text fl_defs fl_main fl_rt fl_lines
             (mk_shs false [] []) _ _ _ eq_refl eq_refl Ht Hp eq_refl Hr).
  reflexivity.
Qed.

(** 3h. FROM THE TEXT (round 9b; Proofs/ShellTextProofs.v). [flat_parsed] is discharged for every text of
    C14's flat fragment (frag_flat: command lines, no indentation, see C14_parse_flat): the text is parsed --
    with the fuel parse_from computes -- to exactly its lines, or parse_from runs out of fuel.
    C15_sete_calls_text: the flag-state theorem with the script TEXT [render_block b] as hypothesis instead of
    a parse (function bodies still enter through tab_ok, whose flat_parsed entries are discharged the same
    way for unindented bodies, by computation otherwise). *)
Theorem C15_flat_text_parsed : forall b, frag_flat b = true ->
  parse_from l_grammar L_EXP (render_block b) = PFuel \/
  exists ls, flat_lines b = Some ls /\ flat_parsed (render_block b) ls.
Proof. exact flat_text_parsed. Qed.

Theorem C15_sete_calls_text : forall ext file_text n ft rt, tab_ok ft rt ->
  forall fuel b ls w e' tr st, frag_flat b = true ->
  parse_from l_grammar L_EXP (render_block b) <> PFuel ->
  flat_lines b = Some ls -> forallb ok_line ls = true -> s_funcs w = ft ->
  refl ext rt fuel ls (s_eoe w) 0%Z = Some (e', tr, st) ->
  exists sts,
    run_lines shs (exec_line ext file_text n fuel) no_words no_setvar s_eoe n (render_block b) w =
      Some (Done (mk_shs e' ft (s_log w ++ tr)) sts false false)
    /\ script_status sts = st.
Proof.
  intros ext file_text n ft rt Htab fuel b ls w e' tr st Hfr Hnf Hfl Hok Hf Hr.
  destruct (flat_text_parsed b Hfr) as [F|[ls' [E P]]]; [contradiction|].
  rewrite E in Hfl. injection Hfl as ->.
  exact (flag_state_lines ext file_text n ft rt Htab fuel (render_block b) ls w e' tr st P Hok Hf Hr).
Qed.

Definition tx_body : block := BCons (SCmd nil (S2 "in1")) (BCons (SCmd nil (S2 "fail7")) (BCons (SCmd nil (S2 "last")) BNil)).
Definition tx_main : block :=
  BCons (SCmd nil (S2 "set -e")) (BCons (SCmd nil (S2 "one")) (BCons (SCmd nil (S2 "f")) (BCons (SCmd nil (S2 "notreached")) BNil))).
Example C15_sete_calls_text_nonvacuous :
  exists sts,
    run_lines shs (exec_line fs_ext (fun _ => None) 8 3) no_words no_setvar s_eoe 8 (render_block tx_main)
      (mk_shs false [(S2 "f", render_block tx_body)] []) =
      Some (Done (mk_shs true [(S2 "f", render_block tx_body)] [S2 "one"; S2 "in1"; S2 "fail7"]) sts false false)
    /\ script_status sts = 7%Z.
Proof.
  assert (Hb : flat_parsed (render_block tx_body) [S2 "in1"; S2 "fail7"; S2 "last"]).
  { destruct (C15_flat_text_parsed tx_body eq_refl) as [F|[ls [E P]]]; [vm_compute in F; discriminate F|].
    vm_compute in E. injection E as <-. exact P. }
  assert (Ht : tab_ok [(S2 "f", render_block tx_body)] [(S2 "f", [S2 "in1"; S2 "fail7"; S2 "last"])]).
  { apply tab_cons; [exact Hb | vm_compute; reflexivity | apply tab_nil]. }
  apply (C15_sete_calls_text fs_ext (fun _ => None) 8 _ _ Ht 3 tx_main
           [S2 "set -e"; S2 "one"; S2 "f"; S2 "notreached"] (mk_shs false [(S2 "f", render_block tx_body)] [])
           true [S2 "one"; S2 "in1"; S2 "fail7"] 7%Z).
  - vm_compute. reflexivity.
  - vm_compute. discriminate.
  - vm_compute. reflexivity.
  - vm_compute. reflexivity.
  - reflexivity.
  - vm_compute. reflexivity.
Qed.

(** 3i. `source` LINES IN THE TRACE (round 9c; Proofs/ShellSourceProofs.v). The reference [refl3 ext rfiles fuel
    lines e rt last] = Some (flag afterwards, function table afterwards, commands executed, status) is 3g's with the
    reference function table as STATE and one more line class: `source PATH [args]` -- the file's function
    definitions are added to the table (later ones win), its main lines run in the same shell state from the
    caller's flag, functions it defines (or a `set -e` it executes: NOT) persist: the flag after the line is the
    CALLER's (run_script restores it, 3fef4c9), so `source` never switches set -e off, and a failure inside the
    sourced file under set -e ends the sourcing script as well (status handed up); a missing file is status 1; a
    `source` costs two levels of fuel, a call one, as in the model. Files enter through [files_ok file_text
    rfiles]: every readable file has function_table text = (defs, text_new), defs tab_ok to the reference defs,
    text_new flat_parsed to ok_line lines. The final function table of the state is some ft' with tab_ok ft' rt'. *)
Theorem C15_sete_source_trace : forall ext file_text n rfiles, files_ok file_text rfiles ->
  forall fuel text lines w rt e' rt' tr st,
  flat_parsed text lines -> forallb ok_line lines = true -> tab_ok (s_funcs w) rt ->
  refl3 ext rfiles fuel lines (s_eoe w) rt 0%Z = Some (e', rt', tr, st) ->
  exists sts ft',
    run_lines shs (exec_line ext file_text n fuel) no_words no_setvar s_eoe n text w =
      Some (Done (mk_shs e' ft' (s_log w ++ tr)) sts false false)
    /\ tab_ok ft' rt' /\ script_status sts = st.
Proof. exact source_trace_lines. Qed.

Theorem C15_sete_source_trace_script : forall ext file_text n rfiles, files_ok file_text rfiles ->
  forall fuel path rdefs lines w rt e' rt' tr st,
  get_file path rfiles = Some (rdefs, lines) -> tab_ok (s_funcs w) rt ->
  refl3 ext rfiles fuel lines (s_eoe w) (set_rfuncs rdefs rt) 0%Z = Some (e', rt', tr, st) ->
  exists ft',
    run_script ext file_text n (S fuel) w path = (mk_shs (s_eoe w) ft' (s_log w ++ tr), st) /\ tab_ok ft' rt'.
Proof. exact source_trace_script. Qed.

(** instance: `set -e`, then a `source` of a file that defines g and runs a command, then g, then a failure *)
Definition sr_main : str := S2 "set -e
one
source lib.sh
g
fail7
notreached
".
Definition sr_lib : str := S2 "function g {
  in_g
}
in_lib
".
Definition sr_files (p : str) : option str :=
  if str_eqb (S2 "m.sh") p then Some sr_main else if str_eqb (S2 "lib.sh") p then Some sr_lib else None.
Definition sr_lib_defs : list (str * str) := Eval vm_compute in fst (function_table sr_lib).
Definition sr_lib_new : str := Eval vm_compute in snd (function_table sr_lib).
Definition sr_main_lines : list str :=
  [S2 "set -e"; S2 "one"; S2 "source lib.sh"; S2 "g"; S2 "fail7"; S2 "notreached"].
Definition sr_rfiles : list (str * rfile) :=
  [(S2 "m.sh", ([], sr_main_lines)); (S2 "lib.sh", ([(S2 "g", [S2 "in_g"])], [S2 "in_lib"]))].
Example C15_sete_source_trace_nonvacuous :
  files_ok sr_files sr_rfiles /\
  exists ft',
    run_script fs_ext sr_files 8 4 (mk_shs false [] []) (S2 "m.sh") =
      (mk_shs false ft' [S2 "one"; S2 "in_lib"; S2 "in_g"; S2 "fail7"], 7%Z)
    /\ tab_ok ft' [(S2 "g", [S2 "in_g"])].
Proof.
  assert (Hf : files_ok sr_files sr_rfiles).
  { intro path. unfold sr_files, sr_rfiles. cbn [get_file].
    destruct (str_eqb (S2 "m.sh") path).
    - exists [], sr_main, [], sr_main_lines. split; [vm_compute; reflexivity|]. split; [reflexivity|].
      split; [apply tab_nil|]. split; [prove_flat_parsed | vm_compute; reflexivity].
    - destruct (str_eqb (S2 "lib.sh") path); [|reflexivity].
      exists sr_lib_defs, sr_lib_new, [(S2 "g", [S2 "in_g"])], [S2 "in_lib"].
      split; [vm_compute; reflexivity|]. split; [reflexivity|].
      split; [|split; [prove_flat_parsed | vm_compute; reflexivity]].
      vm_compute. apply tab_cons; [prove_flat_parsed | vm_compute; reflexivity | apply tab_nil]. }
  split; [exact Hf|].
  destruct (C15_sete_source_trace_script fs_ext sr_files 8 sr_rfiles Hf 3 (S2 "m.sh") [] sr_main_lines
              (mk_shs false [] []) [] true [(S2 "g", [S2 "in_g"])] [S2 "one"; S2 "in_lib"; S2 "in_g"; S2 "fail7"] 7%Z
              eq_refl tab_nil) as [ft' [H1 H2]].
  { vm_compute. reflexivity. }
  exists ft'. split; [exact H1 | exact H2].
Qed.

(** 3j. INDENTED flat texts (round 9c; Proofs/ShellIndentProofs.v), from C14_parse_indented: a block of command
    lines, each with any indentation ([cmd_lines b = Some ls], b in fragI_block), is parsed to exactly its lines
    or parse_from runs out of fuel; so a function-table entry whose body is written indented goes into tab_ok
    through the theorem (C15_tab_ok_indented), and the flag-state theorem takes an indented script text
    (C15_sete_calls_text_indented). Blank lines, break / continue lines are not in [cmd_lines]. *)
Theorem C15_indented_text_parsed : forall b ls, fragI_block b = true -> cmd_lines b = Some ls ->
  parse_from l_grammar L_EXP (render_block b) = PFuel \/ flat_parsed (render_block b) ls.
Proof. exact indented_text_parsed. Qed.

Theorem C15_tab_ok_indented : forall k b ls ft rt, fragI_block b = true -> cmd_lines b = Some ls ->
  parse_from l_grammar L_EXP (render_block b) <> PFuel -> forallb ok_line ls = true ->
  tab_ok ft rt -> tab_ok ((k, render_block b) :: ft) ((k, ls) :: rt).
Proof. exact tab_ok_indented. Qed.

Theorem C15_sete_calls_text_indented : forall ext file_text n ft rt, tab_ok ft rt ->
  forall fuel b ls w e' tr st, fragI_block b = true -> cmd_lines b = Some ls ->
  parse_from l_grammar L_EXP (render_block b) <> PFuel ->
  forallb ok_line ls = true -> s_funcs w = ft ->
  refl ext rt fuel ls (s_eoe w) 0%Z = Some (e', tr, st) ->
  exists sts,
    run_lines shs (exec_line ext file_text n fuel) no_words no_setvar s_eoe n (render_block b) w =
      Some (Done (mk_shs e' ft (s_log w ++ tr)) sts false false)
    /\ script_status sts = st.
Proof.
  intros ext file_text n ft rt Htab fuel b ls w e' tr st Hfr Hc Hnf Hok Hf Hr.
  destruct (indented_text_parsed b ls Hfr Hc) as [F|P]; [contradiction|].
  exact (flag_state_lines ext file_text n ft rt Htab fuel (render_block b) ls w e' tr st P Hok Hf Hr).
Qed.

(** instance: the body of f is written with two blanks / a tab of indentation, the main text with one blank *)
Definition ti_body : block :=
  BCons (SCmd (S2 "  ") (S2 "in1")) (BCons (SCmd it_tab (S2 "fail7")) (BCons (SCmd (S2 "  ") (S2 "last")) BNil)).
Definition ti_main : block :=
  BCons (SCmd nil (S2 "set -e")) (BCons (SCmd (S2 " ") (S2 "one")) (BCons (SCmd nil (S2 "f")) (BCons (SCmd nil (S2 "notreached")) BNil))).
Example C15_sete_calls_text_indented_nonvacuous :
  render_block ti_body = S2 "  in1
	fail7
  last
" /\
  exists sts,
    run_lines shs (exec_line fs_ext (fun _ => None) 8 3) no_words no_setvar s_eoe 8 (render_block ti_main)
      (mk_shs false [(S2 "f", render_block ti_body)] []) =
      Some (Done (mk_shs true [(S2 "f", render_block ti_body)] [S2 "one"; S2 "in1"; S2 "fail7"]) sts false false)
    /\ script_status sts = 7%Z.
Proof.
  split; [vm_compute; reflexivity|].
  assert (Ht : tab_ok [(S2 "f", render_block ti_body)] [(S2 "f", [S2 "in1"; S2 "fail7"; S2 "last"])]).
  { apply C15_tab_ok_indented; [vm_compute; reflexivity | vm_compute; reflexivity | vm_compute; discriminate
                                | vm_compute; reflexivity | apply tab_nil]. }
  apply (C15_sete_calls_text_indented fs_ext (fun _ => None) 8 _ _ Ht 3 ti_main
           [S2 "set -e"; S2 "one"; S2 "f"; S2 "notreached"] (mk_shs false [(S2 "f", render_block ti_body)] [])
           true [S2 "one"; S2 "in1"; S2 "fail7"] 7%Z).
  - vm_compute. reflexivity.
  - vm_compute. reflexivity.
  - vm_compute. discriminate.
  - vm_compute. reflexivity.
  - reflexivity.
  - vm_compute. reflexivity.
Qed.

(** 3k. The two references agree (round 9c; Proofs/ShellRefEqProofs.v): from the flag ON, the flag-state
    reference [refl] executes exactly [upto_fail] of the inlined sequence [unfold], keeps the flag on, and its
    status is that of the first failing command (0 if none) -- so 3f is the flag-on reading of 3g. *)
Theorem C15_refl_is_upto_fail : forall ext rt fuel ls cmds, unfold rt fuel ls = Some cmds ->
  refl ext rt fuel ls true 0%Z = Some (true, upto_fail ext cmds, fail_status ext cmds).
Proof. exact refl_is_upto_fail. Qed.

(** 3l. AND-OR LINES (round 9d; Proofs/ShellAndOrProofs.v): a line may be ANY and-or list (`f && x`, `f || x`,
    `a ; b`) -- no single_pipe hypothesis; bodies enter through [tab_okw] (wf_line lines only). Reference: a
    line is run by the SAME and-or loop of the C03 list model (run_line_of = run_command_line of
    Model/ListExec.v) over the reference pipeline runner [rpipe ext rt fuel] on the reference state
    Some (flag, commands executed) (None = out of fuel / `source`): `set -e` sets the flag, an external command
    is appended and returns [ext t], a call runs [alines] on the body from the current state; [alines] runs the
    lines in order and, after EACH LINE, ends the list when the flag is on and the status of the LAST pipeline
    executed in that line is not 0 (a line that executed nothing leaves the previous status) -- so `fail || x`
    and `fail ; ok` do not end the script, `f && x` with f failing does. The statement is per line, as the
    code is. C15_sete_andor_trace: from ANY flag, for every table / text / call depth, run_lines of the model has
    the reference's log, flag and status. (run_line_of_sim: the and-or loop preserves any simulation between
    two pipeline runners -- generic in both worlds.) *)
Theorem C15_sete_andor_trace : forall ext file_text n ft rt, tab_okw ft rt ->
  forall fuel text lines w e' tr st,
  flat_parsed text lines -> forallb wf_line lines = true -> s_funcs w = ft ->
  alines (rpipe ext rt fuel) lines (Some (s_eoe w, [])) 0%Z = (Some (e', tr), st) ->
  exists sts,
    run_lines shs (exec_line ext file_text n fuel) no_words no_setvar s_eoe n text w =
      Some (Done (mk_shs e' ft (s_log w ++ tr)) sts false false)
    /\ script_status sts = st.
Proof. exact andor_trace_lines. Qed.

Definition ao_body : str := S2 "  in_f
  fail7 || in_rec
  fail7
  f_notreached
".
Definition ao_main : str := S2 "fail7 && skipped
set -e
fail7 || recovered
fail7 ; ok
f || after_f
f && notrun
notreached
".
Definition ao_lines : list str :=
  [S2 "fail7 && skipped"; S2 "set -e"; S2 "fail7 || recovered"; S2 "fail7 ; ok"; S2 "f || after_f"; S2 "f && notrun"; S2 "notreached"].
Definition ao_blines : list str := [S2 "in_f"; S2 "fail7 || in_rec"; S2 "fail7"; S2 "f_notreached"].
Definition ao_trace : list str :=
  [S2 "fail7"; S2 "fail7"; S2 "recovered"; S2 "fail7"; S2 "ok";
   S2 "in_f"; S2 "fail7"; S2 "in_rec"; S2 "fail7"; S2 "after_f";
   S2 "in_f"; S2 "fail7"; S2 "in_rec"; S2 "fail7"].
Example C15_sete_andor_trace_nonvacuous :
  exists sts,
    run_lines shs (exec_line fs_ext (fun _ => None) 8 3) no_words no_setvar s_eoe 8 ao_main
      (mk_shs false [(S2 "f", ao_body)] []) =
      Some (Done (mk_shs true [(S2 "f", ao_body)] ao_trace) sts false false)
    /\ script_status sts = 7%Z.
Proof.
  assert (Ht : tab_okw [(S2 "f", ao_body)] [(S2 "f", ao_blines)]).
  { apply tabw_cons; [prove_flat_parsed | vm_compute; reflexivity | apply tabw_nil]. }
  apply (C15_sete_andor_trace fs_ext (fun _ => None) 8 _ _ Ht 3 ao_main ao_lines
           (mk_shs false [(S2 "f", ao_body)] []) true ao_trace 7%Z).
  - prove_flat_parsed.
  - vm_compute. reflexivity.
  - reflexivity.
  - vm_compute. reflexivity.
Qed.

(** 3m. Without `source` lines the reference with the function table as state (3i) is the flag-state reference
    (3g), with the table unchanged -- for any file table (round 9d; Proofs/ShellRef3EqProofs.v). *)
Theorem C15_refl3_is_refl : forall ext rfiles rt fuel ls e last e' tr st,
  refl ext rt fuel ls e last = Some (e', tr, st) ->
  refl3 ext rfiles fuel ls e rt last = Some (e', rt, tr, st).
Proof. exact refl3_refl. Qed.

(** 3n. (round 9e) The run_script-level corollary for and-or lines, and: on lines that are single pipelines
    (in the text and in every body) the and-or reference of 3l IS the flag-state reference of 3g. *)
Theorem C15_sete_andor_script : forall ext file_text n fuel path text defs text_new rt lines w e' tr st,
  file_text path = Some text -> function_table text = (defs, text_new) ->
  tab_okw (set_funcs defs (s_funcs w)) rt ->
  flat_parsed text_new lines -> forallb wf_line lines = true ->
  alines (rpipe ext rt fuel) lines (Some (s_eoe w, [])) 0%Z = (Some (e', tr), st) ->
  run_script ext file_text n (S fuel) w path =
    (mk_shs (s_eoe w) (set_funcs defs (s_funcs w)) (s_log w ++ tr), st).
Proof. exact andor_trace_script. Qed.

Theorem C15_alines_is_refl : forall ext rt,
  (forall name body, get_body name rt = Some body -> forallb single_pipe body = true) ->
  forall fuel ls e last e' tr st, forallb single_pipe ls = true ->
  refl ext rt fuel ls e last = Some (e', tr, st) ->
  forall tr0, alines (rpipe ext rt fuel) ls (Some (e, tr0)) last = (Some (e', (tr0 ++ tr)%list), st).
Proof. exact alines_refl. Qed.

(** 3o. (round 9e) BLANK LINES inside indented flat texts: [skel] (hence flat_parsed) skips CMD pairs with empty
    text as exp_loop does; [body_lines b] lists every line of the block, a blank line as the empty text; the
    parse gives exactly the non-empty ones. *)
Theorem C15_indented_blank_text_parsed : forall b ls, fragI_block b = true -> body_lines b = Some ls ->
  parse_from l_grammar L_EXP (render_block b) = PFuel \/ flat_parsed (render_block b) (filter nonempty_l ls).
Proof. exact indented_blank_text_parsed. Qed.

Theorem C15_tab_ok_indented_blank : forall k b ls ft rt, fragI_block b = true -> body_lines b = Some ls ->
  parse_from l_grammar L_EXP (render_block b) <> PFuel -> forallb ok_line (filter nonempty_l ls) = true ->
  tab_ok ft rt -> tab_ok ((k, render_block b) :: ft) ((k, filter nonempty_l ls) :: rt).
Proof. exact tab_ok_indented_blank. Qed.

Definition bl_body : block :=
  BCons (SCmd (S2 "  ") (S2 "in1")) (BCons (SBlank (S2 " ")) (BCons (SCmd it_tab (S2 "fail7")) (BCons (SBlank nil) BNil))).
Example C15_indented_blank_nonvacuous : flat_parsed (render_block bl_body) [S2 "in1"; S2 "fail7"].
Proof.
  assert (Hf : fragI_block bl_body = true) by (vm_compute; reflexivity).
  assert (Hb : body_lines bl_body = Some [S2 "in1"; nil; S2 "fail7"; nil]) by (vm_compute; reflexivity).
  destruct (C15_indented_blank_text_parsed bl_body _ Hf Hb) as [F|P];
    [vm_compute in F; discriminate F | exact P].
Qed.

(** The property, in full, and its refutation on the faithful model (what is left: a token
    holding a newline is not expanded -- first clause, stated for ALL tokens). *)
Definition C15_full : Prop :=
  (forall args token out, Subst args token out -> expand_args_for_single_token token args = Ok out)
  /\ func_status_full /\ sete_full.
Theorem C15_refuted : ~ C15_full.
Proof.
  intros [H _]. destruct C15_args_newline_refuted as [args [token [out [HS [Hne He]]]]].
  rewrite (H args token out HS) in He. injection He as E. exact (Hne E).
Qed.

(** Function table: both header spellings, names with - and _, body lines kept verbatim. *)
Example C15_function_table :
  function_table (S2 "echo a
function f-1 {
  echo $1
}
function _g()   {
echo g
}
f-1 x
") = ([(S2 "f-1", S2 "  echo $1
"); (S2 "_g", S2 "echo g
")], S2 "echo a
f-1 x
").
Proof. vm_compute. reflexivity. Qed.

Check C15_args : forall args token out,
  no_nl token = true -> Subst args token out ->
  expand_args_for_single_token token args = Ok out.

(** Non-vacuity of C15_args:  x${1}y$@-$9$  with [s; a; b c]  gives  xaya b c-$ *)
Example C15_nonvacuous :
  no_nl (S2 "x${1}y$@-$9$") = true /\
  Subst [S2 "s"; S2 "a"; S2 "b c"] (S2 "x${1}y$@-$9$") (S2 "xaya b c-$").
Proof.
  split; [reflexivity|]. vm_compute. repeat subst_step.
Qed.

Check C15_sete_calls_trace : forall ext file_text n ft rt, tab_ok ft rt ->
  forall fuel text lines cmds w,
  flat_parsed text lines -> forallb ok_line lines = true -> unfold rt fuel lines = Some cmds ->
  s_eoe w = true -> s_funcs w = ft ->
  exists sts,
    run_lines shs (exec_line ext file_text n fuel) no_words no_setvar s_eoe n text w =
      Some (Done (mk_shs true ft (s_log w ++ upto_fail ext cmds)) sts false false)
    /\ script_status sts = fail_status ext cmds.
Check C15_sete_calls_script : forall ext file_text n fuel path text defs text_new rt sete lines cmds w,
  file_text path = Some text -> function_table text = (defs, text_new) ->
  tab_ok (set_funcs defs (s_funcs w)) rt ->
  flat_parsed text_new (sete :: lines) ->
  cmd_words sete = [[115; 101; 116]; [45; 101]]%N ->
  forallb ok_line (sete :: lines) = true ->
  unfold rt (S fuel) lines = Some cmds ->
  run_script ext file_text n (S (S fuel)) w path =
    (mk_shs (s_eoe w) (set_funcs defs (s_funcs w)) (s_log w ++ upto_fail ext cmds), fail_status ext cmds).

Print Assumptions C15_args.
Print Assumptions C15_args_newline_refuted.
Print Assumptions C15_func_status.
Print Assumptions C15_func_status_list.
Print Assumptions C15_func_status_seq.
Print Assumptions C15_sete_flat.
Print Assumptions C15_sete.
Print Assumptions C15_sete_stops.
Print Assumptions C15_refuted.
Print Assumptions C15_sete_calls_instances.
Print Assumptions C15_flag_preserved.
Print Assumptions C15_sete_calls.
Print Assumptions C15_sete_combined.
Print Assumptions C15_source_with_redirection.
Print Assumptions C15_sete_rest_of_body.
Print Assumptions C15_sete_calls_trace.
Print Assumptions C15_sete_calls_script.
Print Assumptions C15_first_failure.
Print Assumptions C15_indented_blank_text_parsed.
Print Assumptions C15_tab_ok_indented_blank.
Print Assumptions C15_indented_blank_nonvacuous.
Print Assumptions C15_sete_andor_script.
Print Assumptions C15_alines_is_refl.
Print Assumptions C15_refl3_is_refl.
Print Assumptions C15_sete_andor_trace.
Print Assumptions C15_sete_andor_trace_nonvacuous.
Print Assumptions C15_refl_is_upto_fail.
Print Assumptions C15_indented_text_parsed.
Print Assumptions C15_tab_ok_indented.
Print Assumptions C15_sete_calls_text_indented.
Print Assumptions C15_sete_calls_text_indented_nonvacuous.
Print Assumptions C15_sete_source_trace.
Print Assumptions C15_sete_source_trace_script.
Print Assumptions C15_sete_source_trace_nonvacuous.
Print Assumptions C15_flat_text_parsed.
Print Assumptions C15_sete_calls_text.
Print Assumptions C15_sete_calls_text_nonvacuous.
Print Assumptions C15_sete_calls_flag_state.
Print Assumptions C15_sete_calls_flag_state_script.
Print Assumptions C15_flag_never_off.
Print Assumptions C15_sete_calls_flag_state_nonvacuous.
Print Assumptions C15_sete_calls_script_at.
Print Assumptions C15_sete_calls_at_nonvacuous.
Print Assumptions C15_sete_calls_stops.
Print Assumptions C15_sete_calls_nonvacuous.


(** ---- Round 9 (pegfuel): the fuel disjunct / hypothesis of the text theorems is discharged by the generic
    termination theorem of Proofs/PegFuel.v on the regenerated grammar (C14_parse_never_fuel): parse_from
    never answers PFuel. ---- *)
From Cicada Require Proofs.PegFuel Proofs.PegFuelInst.

Theorem C15_parse_never_fuel : forall start s, parse_from l_grammar start s <> PFuel.
Proof. exact PegFuelInst.l_parse_never_fuel. Qed.

Theorem C15_flat_text_parsed_total : forall b, frag_flat b = true ->
  exists ls, flat_lines b = Some ls /\ flat_parsed (render_block b) ls.
Proof.
  intros b H. destruct (C15_flat_text_parsed b H) as [F|P]; [|exact P].
  exfalso. exact (C15_parse_never_fuel _ _ F).
Qed.
Check C15_flat_text_parsed_total : forall b, frag_flat b = true ->
  exists ls, flat_lines b = Some ls /\ flat_parsed (render_block b) ls.

Theorem C15_indented_text_parsed_total : forall b ls, fragI_block b = true -> cmd_lines b = Some ls ->
  flat_parsed (render_block b) ls.
Proof.
  intros b ls H C. destruct (C15_indented_text_parsed b ls H C) as [F|P]; [|exact P].
  exfalso. exact (C15_parse_never_fuel _ _ F).
Qed.
Check C15_indented_text_parsed_total : forall b ls, fragI_block b = true -> cmd_lines b = Some ls ->
  flat_parsed (render_block b) ls.

Theorem C15_indented_blank_text_parsed_total : forall b ls, fragI_block b = true -> body_lines b = Some ls ->
  flat_parsed (render_block b) (filter nonempty_l ls).
Proof.
  intros b ls H C. destruct (C15_indented_blank_text_parsed b ls H C) as [F|P]; [|exact P].
  exfalso. exact (C15_parse_never_fuel _ _ F).
Qed.
Check C15_indented_blank_text_parsed_total : forall b ls, fragI_block b = true -> body_lines b = Some ls ->
  flat_parsed (render_block b) (filter nonempty_l ls).

Theorem C15_sete_calls_text_total : forall ext file_text n ft rt, tab_ok ft rt ->
  forall fuel b ls w e' tr st, frag_flat b = true ->
  flat_lines b = Some ls -> forallb ok_line ls = true -> s_funcs w = ft ->
  refl ext rt fuel ls (s_eoe w) 0%Z = Some (e', tr, st) ->
  exists sts,
    run_lines shs (exec_line ext file_text n fuel) no_words no_setvar s_eoe n (render_block b) w =
      Some (Done (mk_shs e' ft (s_log w ++ tr)) sts false false)
    /\ script_status sts = st.
Proof.
  intros ext file_text n ft rt Htab fuel b ls w e' tr st Hfr Hfl Hok Hf Hr.
  exact (C15_sete_calls_text ext file_text n ft rt Htab fuel b ls w e' tr st Hfr (C15_parse_never_fuel _ _) Hfl Hok Hf Hr).
Qed.
Check C15_sete_calls_text_total : forall ext file_text n ft rt, tab_ok ft rt ->
  forall fuel b ls w e' tr st, frag_flat b = true ->
  flat_lines b = Some ls -> forallb ok_line ls = true -> s_funcs w = ft ->
  refl ext rt fuel ls (s_eoe w) 0%Z = Some (e', tr, st) ->
  exists sts,
    run_lines shs (exec_line ext file_text n fuel) no_words no_setvar s_eoe n (render_block b) w =
      Some (Done (mk_shs e' ft (s_log w ++ tr)) sts false false)
    /\ script_status sts = st.

Theorem C15_sete_calls_text_indented_total : forall ext file_text n ft rt, tab_ok ft rt ->
  forall fuel b ls w e' tr st, fragI_block b = true -> cmd_lines b = Some ls ->
  forallb ok_line ls = true -> s_funcs w = ft ->
  refl ext rt fuel ls (s_eoe w) 0%Z = Some (e', tr, st) ->
  exists sts,
    run_lines shs (exec_line ext file_text n fuel) no_words no_setvar s_eoe n (render_block b) w =
      Some (Done (mk_shs e' ft (s_log w ++ tr)) sts false false)
    /\ script_status sts = st.
Proof.
  intros ext file_text n ft rt Htab fuel b ls w e' tr st Hfr Hc Hok Hf Hr.
  exact (C15_sete_calls_text_indented ext file_text n ft rt Htab fuel b ls w e' tr st Hfr Hc (C15_parse_never_fuel _ _) Hok Hf Hr).
Qed.

Print Assumptions C15_parse_never_fuel.
Print Assumptions C15_flat_text_parsed_total.
Print Assumptions C15_indented_text_parsed_total.
Print Assumptions C15_indented_blank_text_parsed_total.
Print Assumptions C15_sete_calls_text_total.
Print Assumptions C15_sete_calls_text_indented_total.
