(** C01 -- quoted and escaped arguments reach the program verbatim.
    Statements only; proofs in Proofs/{TokenizerProofs,RedirectProofs,CmdsProofs}.v.

    Status. Proved for every command word and every list of single- or
    double-quoted arguments (any texts, any number, any spacing):
    tokenizing ([C01_tokenize]), planning ([C01_plan_quoted]: one foreground
    command, words = the written texts, no pipe / background / redirection /
    assignment), and list splitting ([C01_split]: quoted, escaped and
    backquoted atoms never split a line).
    The backslash-escaped style: [C01_tokenize_escaped] proves the tokenizer
    step for one escaped argument of any text; for the passes AFTER the
    tokenizer the full statement is false of the code -- [C01_esc_refuted] gives
    the witnesses (classes esc-expanded, esc-amp-last of known_findings.txt) --
    and outside those classes it is carried by the correspondence check only.
    [C01_plan_full] is the whole of CommandLine::from_line (tokenizer, the
    real expansion passes of Model/Expand.v, planner) on the property's quoted
    domain: single-quoted texts, and double-quoted texts free of dollar and
    backquote ([calm_qarg]); [C01_plan_quoted] is the older form with the
    expansion passes as a parameter. *)
From Cicada Require Import Base.Chars Base.Tag Model.Tokenizer Model.Redirect Model.Cmds
  Proofs.TokenizerProofs Proofs.RedirectProofs Proofs.ListExecProofs Proofs.CmdsProofs.
From Cicada Require Import Model.Expand Model.FullPlan Proofs.C13Proofs Proofs.C01Full.
From Cicada Require Proofs.ExpandInert Proofs.TokenizerEscProofs.
From Cicada Require Import Proofs.TokenizerMixedProofs Proofs.C01Mixed.

Theorem C01_tokenize : forall cmd (args : list (nat * qarg)),
  plain_word cmd = true -> forallb arith_body cmd = false ->
  forallb (fun '(_, a) => wf_qarg a) args = true ->
  parse_line (render_cmd cmd args) = (TNone, cmd) :: map (fun '(_, a) => tok_of_qarg a) args.
Proof. exact parse_line_quoted. Qed.

Theorem C01_plan_quoted : forall (expand : list token -> list token) cmd (args : list (nat * qarg)),
  plain_word cmd = true -> forallb arith_body cmd = false -> split_env cmd = None ->
  forallb (fun '(_, a) => wf_qarg a) args = true -> inert expand cmd ->
  plan_tokens (expand (parse_line (render_cmd cmd args))) =
  inl (mkcl [mkc ((TNone, cmd) :: map (fun '(_, a) => tok_of_qarg a) args) [] None] [] false).
Proof. exact plan_line_quoted. Qed.

(** text in, plan out, with the real expansion passes: for every world (variables,
    aliases, glob and command oracles), every fuel, every plain command word that is
    not an alias, and every list of quoted arguments *)
Theorem C01_plan_full : forall W fuel cmd (args : list (nat * qarg)),
  plain_word cmd = true -> forallb arith_body cmd = false -> split_env cmd = None ->
  ExpandInert.cmd_ok W cmd ->
  forallb (fun '(_, a) => wf_qarg a) args = true -> Forall (fun '(_, a) => calm_qarg a) args ->
  plan W fuel (render_cmd cmd args)
  = Ok (inl (mkcl [mkc ((TNone, cmd) :: map (fun '(_, a) => tok_of_qarg a) args) [] None] [] false)).
Proof. exact C01Full.C01_plan_full. Qed.

(** whatever the quoted tokens hold, the passes after expansion plan one command *)
Theorem C01_post_passes : forall cmd l,
  cmd_ok cmd = true -> forallb quoted_tok l = true ->
  plan_tokens ((TNone, cmd) :: l) = inl (mkcl [mkc ((TNone, cmd) :: l) [] None] [] false).
Proof. exact plan_quoted. Qed.

(** The backslash-escaped style through the tokenizer, one argument: every
    character of the property's special set (all shell metacharacters, space,
    tab) is preceded by a backslash, anything else is written as it is; the
    word is read back as exactly its text, for EVERY non-empty text. (The token
    tag depends on the text: backslash-tag when it starts with an escaped bar
    or dollar, single-quote tag when it holds an escaped angle bracket, none
    otherwise -- [C01_esc_refuted] shows what later passes do with the untagged
    ones.) *)
Definition c01_special (c : char) : bool :=
  existsb (fun k => N.eqb c k)
    [124; 38; 59; 60; 62; 40; 41; 36; 96; 92; 34; 39; 42; 63; 91; 93; 123; 125; 44; 126; 35; 33; 61; 37; 94; 32; 9]%N.

Lemma c01_special_covers : forall c, c01_special c = false -> classify c = KOther.
Proof.
  intros c H. unfold classify.
  repeat match goal with
  | |- context [N.eqb c ?k] => destruct (N.eqb_spec c k) as [->|_]; [cbv in H; discriminate|]
  end. reflexivity.
Qed.

Theorem C01_tokenize_escaped : forall cmd name n,
  plain_word cmd = true -> forallb arith_body cmd = false -> name <> [] ->
  parse_line (cmd ++ c_space :: TokenizerEscProofs.escape_text c01_special name ++ spaces n)
  = [(TNone, cmd); (TokenizerEscProofs.text_tag c01_special name, name)].
Proof. exact (TokenizerEscProofs.parse_line_escaped c01_special c01_special_covers). Qed.

(** The whole domain of the property: ANY number of arguments, each single-quoted,
    double-quoted (also with backslash + quote for a double quote), or backslash-escaped, any
    spacing, trailing blanks. [C01_tokenize_mixed]: the tokenizer returns one
    token per argument holding exactly the written text (the tags are internal:
    [mtoks] states them, including the stale backslash-separator behaviour).
    [C01_plan_mixed_partial]: through the REAL expansion passes and the planner,
    for every world: outside the decidable [Known_C01] -- exactly the two
    recorded classes: an escaped argument whose untagged token still triggers
    an expansion pass (esc-expanded), an escaped ampersand in last position
    (esc-amp-last) -- the line is planned as ONE foreground command whose words
    are the command word and exactly the written texts, with no pipe, background
    marker, redirection or assignment. The proof forced no third class. *)
Theorem C01_tokenize_mixed : forall cmd (args : list (nat * marg)) m,
  plain_word cmd = true -> forallb arith_body cmd = false ->
  forallb (fun '(_, a) => wf_marg a) args = true ->
  map snd (parse_line (cmd ++ render_margs args ++ spaces m)) = cmd :: map (fun '(_, a) => marg_text a) args.
Proof. exact parse_line_mixed_texts. Qed.

Theorem C01_plan_mixed_partial : forall W fuel cmd (args : list (nat * marg)) m,
  plain_word cmd = true -> forallb arith_body cmd = false -> split_env cmd = None ->
  ExpandInert.cmd_ok W cmd ->
  forallb (fun '(_, a) => wf_marg a) args = true ->
  forallb (fun '(_, a) => dq_domain a) args = true ->
  Known_C01 args = false ->
  exists words, plan W fuel (cmd ++ render_margs args ++ spaces m) = Ok (C13Proofs.one_cmd words) /\
                map snd words = cmd :: map (fun '(_, a) => marg_text a) args.
Proof. exact plan_mixed_words. Qed.

(** a line made of plain, quoted, escaped and backquoted atoms is ONE list segment *)
Theorem C01_split : forall ws0 seg ws_end,
  forallb is_ws ws0 = true -> wf_seg seg = true -> forallb is_ws ws_end = true ->
  line_to_cmds (ws0 ++ render_seg seg ++ ws_end) = [render_seg seg].
Proof.
  intros ws0 seg ws_end H0 Hs He.
  exact (line_to_cmds_render ws0 seg [] ws_end H0 Hs eq_refl He).
Qed.

Check C01_tokenize : forall cmd (args : list (nat * qarg)),
  plain_word cmd = true -> forallb arith_body cmd = false ->
  forallb (fun '(_, a) => wf_qarg a) args = true ->
  parse_line (render_cmd cmd args) = (TNone, cmd) :: map (fun '(_, a) => tok_of_qarg a) args.

(** The escaped style: the full statement fails. After tokenizing, the word
    written [a\$HOME] is the untagged text [a$HOME] (indistinguishable from an
    unescaped reference), and [\&] in last position is the untagged word [&],
    which the planner takes for the background marker. *)
Local Open Scope N_scope.
Theorem C01_esc_refuted :
  (* prog a\$HOME  and  prog a$HOME  tokenize identically *)
  parse_line [112;32;97;92;36;72] = parse_line [112;32;97;36;72] /\
  (* prog x \&  is planned as  prog x  in the background *)
  plan_tokens (parse_line [112;32;120;32;92;38]) =
    inl (mkcl [mkc [(TNone, [112]); (TNone, [120])] [] None] [] true).
Proof. split; vm_compute; reflexivity. Qed.

(** Non-vacuity:  prog 'a|b;c' "x > y  &"   *)
Example C01_nonvacuous :
  let cmd := [112;114;111;103] in
  let args := [(0%nat, QSq [97;124;98;59;99]); (2%nat, QDq [120;32;62;32;121;32;32;38])] in
  plain_word cmd = true /\ forallb arith_body cmd = false /\ split_env cmd = None /\
  forallb (fun '(_, a) => wf_qarg a) args = true /\
  length (parse_line (render_cmd cmd args)) = 3%nat.
Proof. vm_compute. repeat split. Qed.

(** Round 9: the hand-written regex matchers of the two models ARE the regexes of the source. The ASTs
    (Gen/ParserLineRegexes.v) are regenerated from parser_line.rs / types.rs on every run by drive/regexsites.py, so a
    changed literal breaks these proofs. For drain_env_tokens only the yes/no decision is tied (the model's [split_env]
    also returns the two captured groups). *)
From Cicada Require Import Base.Regex Gen.ParserLineRegexes Proofs.ParserLineRegexProofs.
Theorem C01_is_an_env_is_source_regex : forall s, is_an_env s = rx_search rx_is_an_env s.
Proof. exact is_an_env_is_source_regex. Qed.
Theorem C01_split_env_is_source_regex : forall s,
  (match split_env s with Some _ => true | None => false end) = rx_search rx_drain_env s.
Proof. exact split_env_is_source_regex. Qed.
Theorem C01_redir_fd_is_source_regex : forall s,
  all_nd s = rx_search rx_redir_fd s /\ all_nd s = rx_search rx_redir_fd2 s.
Proof. intros s. split; [apply all_nd_is_source_regex | apply all_nd_is_source_regex2]. Qed.
Theorem C01_redir_gt_is_source_regex : forall s, has_char c_gt s = rx_search rx_redir_gt s.
Proof. exact has_gt_is_source_regex. Qed.
Check C01_is_an_env_is_source_regex : forall s, is_an_env s = rx_search rx_is_an_env s.
Check C01_split_env_is_source_regex : forall s,
  (match split_env s with Some _ => true | None => false end) = rx_search rx_drain_env s.
Check C01_redir_fd_is_source_regex : forall s,
  all_nd s = rx_search rx_redir_fd s /\ all_nd s = rx_search rx_redir_fd2 s.
Check C01_redir_gt_is_source_regex : forall s, has_char c_gt s = rx_search rx_redir_gt s.
(** non-vacuity: A_1=x y  is accepted by both sides, 1A= and =x by neither of the first; a digit string of another script *)
Example C01_source_regex_nonvacuous :
  rx_search rx_is_an_env [65;95;49;61;120;32;121] = true /\ rx_search rx_is_an_env [61;120] = false /\
  rx_search rx_is_an_env [65;61;10] = false /\ rx_search rx_drain_env [65;61;10] = true /\
  rx_search rx_redir_fd [50;1633] = true /\ rx_search rx_redir_fd [] = false /\
  rx_search rx_redir_gt [97;62;98] = true.
Proof. vm_compute. repeat split. Qed.

(** Round 9 (continued): the two attached-redirection patterns of tokens_to_redirections against [match_gt] (yes/no:
    GtFull iff ptn1 matches, GtOpen iff ptn2 matches; the captured groups are what the model returns), and the model's
    [is_arithmetic] (the copy inside parse_line's model) as the composition of the three regexes of tools::is_arithmetic
    (through its equality with Calc.is_arithmetic). ASTs regenerated from the source on every run. *)
From Cicada Require Import Gen.ToolsRegexes Proofs.RedirPtnRegexProofs.
From Cicada Require Proofs.ArithTokenizerEq.
Theorem C01_redir_ptn1_is_source_regex : forall w,
  (match match_gt w with GtFull _ _ _ => true | _ => false end) = rx_search rx_redir_ptn1 w.
Proof. exact ptn1_is_source_regex. Qed.
Theorem C01_redir_ptn2_is_source_regex : forall w,
  (match match_gt w with GtOpen _ _ => true | _ => false end) = rx_search rx_redir_ptn2 w.
Proof. exact ptn2_is_source_regex. Qed.
Theorem C01_is_arithmetic_is_source_regex : forall l,
  Tokenizer.is_arithmetic l =
  if negb (rx_search rx_arith_digit l) then false
  else if negb (rx_search rx_arith_op l) then false
  else rx_search rx_arith_shape l.
Proof. exact ArithTokenizerEq.tokenizer_is_arithmetic_is_source_regex. Qed.
Check C01_redir_ptn1_is_source_regex : forall w,
  (match match_gt w with GtFull _ _ _ => true | _ => false end) = rx_search rx_redir_ptn1 w.
Check C01_redir_ptn2_is_source_regex : forall w,
  (match match_gt w with GtOpen _ _ => true | _ => false end) = rx_search rx_redir_ptn2 w.
Check C01_is_arithmetic_is_source_regex : forall l,
  Tokenizer.is_arithmetic l =
  if negb (rx_search rx_arith_digit l) then false
  else if negb (rx_search rx_arith_op l) then false
  else rx_search rx_arith_shape l.
Example C01_source_regex_nonvacuous2 :
  rx_search rx_redir_ptn1 [50;62;62;97] = true /\ rx_search rx_redir_ptn1 [50;62;62] = false /\
  rx_search rx_redir_ptn2 [50;62;62] = true /\ rx_search rx_redir_ptn2 [62;97] = false /\
  rx_search rx_redir_ptn1 [62;97;62] = false /\ rx_search rx_arith_shape [49;43;50] = true.
Proof. vm_compute. repeat split. Qed.

Print Assumptions C01_tokenize.
Print Assumptions C01_plan_quoted.
Print Assumptions C01_tokenize_mixed.
Print Assumptions C01_plan_mixed_partial.
Print Assumptions C01_tokenize_escaped.
Print Assumptions C01_plan_full.
Print Assumptions C01_post_passes.
Print Assumptions C01_split.
Print Assumptions C01_esc_refuted.
Print Assumptions C01_is_an_env_is_source_regex.
Print Assumptions C01_split_env_is_source_regex.
Print Assumptions C01_redir_fd_is_source_regex.
Print Assumptions C01_redir_gt_is_source_regex.
Print Assumptions C01_redir_ptn1_is_source_regex.
Print Assumptions C01_redir_ptn2_is_source_regex.
Print Assumptions C01_is_arithmetic_is_source_regex.
