(** C01 -- placeholder while the proofs are being written. *)
From Cicada Require Import Base.Chars Base.Tag Model.Tokenizer Model.Redirect.
Example C01_smoke : parse_line [97%N; 32%N; 39%N; 98%N; 32%N; 99%N; 39%N] = [(TNone, [97%N]); (TSq, [98%N; 32%N; 99%N])].
Proof. vm_compute. reflexivity. Qed.
Print Assumptions C01_smoke.
