(** C05 -- no input line, script or keystroke sequence crashes or hangs the shell.
    Statements only; proofs in Proofs/{HighlightProofs,FirstWordProofs}.v.

    In Gallina every function terminates and cannot panic, so the content of
    the property is carried by models that have an explicit [Panic site] /
    [PFuel] outcome exactly where the Rust code indexes, slices, unwraps or
    loops on a data-dependent condition, and by theorems that these outcomes
    are unreachable.

    Proved for ALL inputs (unconditionally):
    - [C05_highlight_total]: the highlighter's byte-offset arithmetic slices
      only at char boundaries of the line, for every line (multi-byte text
      included) and every token list; its ranges tile the line in order;
    - [C05_slice_exact]: the model's slice fails exactly at a non-boundary;
    - [C05_word_start_total]: [escaped_word_start] returns a char boundary of
      the text (so lineread's slice and its start <= end check cannot fail);
    - [C05_from_tokens_total] / [C05_plan_total]: the [while has_redirect_from]
      loop of [Command::from_tokens] ends within [S (length tokens)] rounds;
      planning fails only with one of the five redirection syntax errors;
    - [C05_tokenizer_lookups]: the three guarded look-ups of the tokenizer
      ([nth(i+1).unwrap()] twice, [result[len-1]]) never panic and yield the
      look-ahead the structural model uses.  The tokenizer, the list splitter
      and the redirection parser themselves are structural recursions over
      the characters / tokens without any other partial operation.
    Refuted: [C05_empty_command_refuted] -- the first-word look-ups of
      run_pipeline panic on a planned command without words (witnesses:
      [> f], [a>b>c], [echo a | > f]).
    Partial: [C05_planner_partial] -- outside that decidable class the
      look-ups are panic free; [C05_first_word_exact] shows the class is
      exact, [C05_shell_panic_iff] separates the shell's own panic from the
      children's, [C05_head_word] gives the syntactic sufficient condition.
    NOT modelled here (observed by the correspondence layers only, classified
    by [known_foreign]): the expansion loops (C10, C11), brace ranges (C12),
    the calculator (C19), the regex crate, pest, lineread. *)
From Cicada Require Import Base.Chars Base.Tag Model.Tokenizer Model.Redirect Model.Cmds
  Model.Highlight Model.WordStart Model.FirstWord Model.C05Classes
  Proofs.HighlightProofs Proofs.FirstWordProofs.

Theorem C05_highlight_total : forall line toks,
  exists rs, highlight_tokens line toks = Ok rs /\ tiles 0 (blen line) rs.
Proof. exact highlight_tokens_total. Qed.

Theorem C05_highlight_line : forall line, exists rs, highlight line = Ok rs /\ tiles 0 (blen line) rs.
Proof. exact highlight_total. Qed.

Theorem C05_range_no_panic : forall line cur tok s,
  boundary line cur -> find_token_range line cur tok <> Panic s.
Proof. exact find_token_range_no_panic. Qed.

Theorem C05_slice_exact : forall l b, (exists s, slice_from l b = Some s) <-> boundary l b.
Proof. exact slice_from_boundary. Qed.

Theorem C05_word_start_total : forall l, boundary l (escaped_word_start l).
Proof. exact escaped_word_start_boundary. Qed.

Theorem C05_from_tokens_total : forall l, from_tokens l <> inr PFuel.
Proof. exact from_tokens_total. Qed.

Theorem C05_plan_total : forall toks, plan_tokens toks <> inr PFuel.
Proof. exact plan_tokens_total. Qed.

Theorem C05_tokenizer_lookups :
  (forall l i, lookahead_guarded l i = Ok (peek (skipn (i + 1) l))) /\
  (forall l i, (i < length l)%nat -> exists b, rparen_guarded l i = Ok b) /\
  (forall (r : list token), exists o, last_guarded r = Ok o).
Proof. exact (conj lookahead_guarded_ok (conj rparen_guarded_ok (@last_guarded_ok token))). Qed.

(** The full statement for the planner: whatever tokens expansion delivers,
    if they plan, the first-word look-ups do not panic. *)
Definition lookups_fine (f : fw) : Prop := f = FwSkip \/ f = FwRun [].
Definition C05_full : Prop :=
  forall toks cl, plan_tokens toks = inl cl -> lookups_fine (first_word_lookups false cl).

Local Open Scope N_scope.
(** [> f] (shell panic), [a>b>c] (word silently dropped, shell panic),
    [echo a | > f] (the second child panics) *)
Theorem C05_empty_command_refuted :
  ~ C05_full /\
  plan_and_lookup false [(TNone, [62]); (TNone, [102])] =
    SPlan (mkcl [mkc [] [([49], [62], [102])] None] [] false) FwPanicShell /\
  plan_and_lookup false [(TNone, [97; 62; 98; 62; 99])] = SPlan (mkcl [mkc [] [] None] [] false) FwPanicShell /\
  (exists cl, plan_and_lookup false [(TNone, [101]); (TNone, [124]); (TNone, [62]); (TNone, [102])] =
     SPlan cl (FwRun [1%nat])).
Proof.
  split; [|split; [vm_compute; reflexivity|split; [vm_compute; reflexivity|eexists; vm_compute; reflexivity]]].
  intro H. specialize (H [(TNone, [62]); (TNone, [102])] _ eq_refl). destruct H as [H|H]; vm_compute in H; discriminate.
Qed.

Definition Known_C05_planner (cl : cmdline) : Prop := plans_empty_command cl = true.

Theorem C05_planner_partial : forall toks cl,
  plan_tokens toks = inl cl -> ~ Known_C05_planner cl -> lookups_fine (first_word_lookups false cl).
Proof.
  intros toks cl _ K. apply first_word_exact. unfold Known_C05_planner in K.
  now destruct (plans_empty_command cl).
Qed.

(** With the proposed repair (notes/C05-fix-1.patch) the full statement holds, and the
    repair changes nothing where no command was wordless. *)
Theorem C05_fixed_full : forall toks cl,
  plan_tokens_fixed toks = inl cl -> lookups_fine (first_word_lookups false cl).
Proof. exact plan_fixed_full. Qed.

Theorem C05_fix_conservative : forall toks cl,
  plan_tokens toks = inl cl -> plans_empty_command cl = false -> plan_tokens_fixed toks = inl cl.
Proof. exact plan_fixed_conservative. Qed.

Theorem C05_first_word_exact : forall cl,
  lookups_fine (first_word_lookups false cl) <-> plans_empty_command cl = false.
Proof. exact first_word_exact. Qed.

Theorem C05_shell_panic_iff : forall cl,
  first_word_lookups false cl = FwPanicShell <-> exists c0 r, cl_cmds cl = c0 :: r /\ no_words c0 = true.
Proof. exact shell_panic_iff. Qed.

Theorem C05_head_word : forall t l c, safe_word t = true ->
  from_tokens (t :: l) = inl c -> exists r, c_tokens c = t :: r.
Proof. exact from_tokens_head_word. Qed.

Theorem C05_stages_with_head_words : forall segs cs, forallb head_safe segs = true ->
  map_cmds segs = inl cs -> existsb no_words cs = false.
Proof. exact map_cmds_words. Qed.

Check C05_highlight_total : forall line toks,
  exists rs, highlight_tokens line toks = Ok rs /\ tiles 0 (blen line) rs.
Check C05_word_start_total : forall l, boundary l (escaped_word_start l).
Check C05_from_tokens_total : forall l, from_tokens l <> inr PFuel.

(** Non-vacuity: a multi-byte line with a quoted token; a pipeline that plans with words. *)
Example C05_nonvacuous :
  highlight [233; 32; 39; 8364; 39; 32; 124; 32; 120] =
    Ok [(0, 2); (2, 3); (3, 8); (8, 9); (9, 10); (10, 11); (11, 12)]%nat /\
  escaped_word_start [108; 115; 32; 102; 248; 111; 32; 98] = 8%nat /\
  (exists cl, plan_and_lookup false (parse_line [97; 32; 124; 32; 98; 32; 62; 32; 102]) = SPlan cl (FwRun [])) /\
  known_foreign [101; 32; 36; 40; 108; 32; 62; 41] = [FSubst].
Proof. repeat split; try (eexists; vm_compute; reflexivity); vm_compute; reflexivity. Qed.

Print Assumptions C05_highlight_total.
Print Assumptions C05_highlight_line.
Print Assumptions C05_range_no_panic.
Print Assumptions C05_slice_exact.
Print Assumptions C05_word_start_total.
Print Assumptions C05_from_tokens_total.
Print Assumptions C05_plan_total.
Print Assumptions C05_tokenizer_lookups.
Print Assumptions C05_empty_command_refuted.
Print Assumptions C05_planner_partial.
Print Assumptions C05_fixed_full.
Print Assumptions C05_fix_conservative.
Print Assumptions C05_first_word_exact.
Print Assumptions C05_shell_panic_iff.
Print Assumptions C05_head_word.
Print Assumptions C05_stages_with_head_words.
