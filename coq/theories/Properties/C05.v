(** C05 -- no input line, script or keystroke sequence crashes or hangs the shell.
    Statements only; proofs in Proofs/{HighlightProofs,FirstWordProofs}.v.

    In Gallina every function terminates and cannot panic, so the content of
    the property is carried by models that have an explicit [Panic site] /
    [PFuel] outcome exactly where the Rust code indexes, slices, unwraps or
    loops on a data-dependent condition, and by theorems that these outcomes
    are unreachable.

    Proved for ALL inputs (unconditionally):
    - [C05_highlight_total]: the highlighter's byte-offset arithmetic slices
      only at char boundaries of the line, for every line (multi-byte text
      included) and every token list; its ranges tile the line in order;
    - [C05_slice_exact]: the model's slice fails exactly at a non-boundary;
    - [C05_word_start_total]: [escaped_word_start] returns a char boundary of
      the text (so lineread's slice and its start <= end check cannot fail);
    - [C05_from_tokens_total] / [C05_plan_total]: the [while has_redirect_from]
      loop of [Command::from_tokens] ends within [S (length tokens)] rounds;
      planning fails only with one of the five redirection syntax errors or
      the empty-command error;
    - [C05_tokenizer_lookups]: the three guarded look-ups of the tokenizer
      ([nth(i+1).unwrap()] twice, [result[len-1]]) never panic and yield the
      look-ahead the structural model uses.  The tokenizer, the list splitter
      and the redirection parser themselves are structural recursions over
      the characters / tokens without any other partial operation.
    - [C05_alias_total]: the second loop of alias expansion never removes or
      inserts out of range, whatever number of words an alias value
      tokenizes to (zero included);
    - [C05_full]: whatever tokens expansion delivers, if they plan, the
      first-word look-ups of run_proc / run_pipeline (index [0] of a stage's
      token list, core.rs try_run_func and types.rs is_builtin) do not
      panic -- no excluded class.  This holds since fix baff407
      ([from_line] rejects a stage without words: [PEmpty]);
      [C05_regression] pins the former witnesses ([> f], [a>b>c],
      [echo a | > f]) to that error and shows what the planner without the
      check did; [C05_fix_conservative] states that the check changed
      nothing where no command was wordless (this is what keeps the
      theorems of C01, C13, C16, C20 about [plan_tokens] valid);
      [C05_first_word_exact] / [C05_shell_panic_iff] characterise the
      look-ups on an arbitrary command line, [C05_head_word] /
      [C05_never_empty_with_head_words] give the syntactic condition under
      which a stage is never rejected as empty.
    NOT modelled here (observed by the correspondence layers only, classified
    by [known_foreign]): the expansion passes (C10-C12, their loops now
    terminate by construction in /repo), the calculator (C19: recursion depth),
    the regex crate, pest, lineread. *)
From Cicada Require Import Base.Chars Base.Tag Model.Tokenizer Model.Redirect Model.Cmds
  Model.Highlight Model.WordStart Model.FirstWord Model.C05Classes Model.Alias Model.AliasSites
  Proofs.AliasSitesProofs
  Proofs.HighlightProofs Proofs.FirstWordProofs.

Theorem C05_highlight_total : forall line toks,
  exists rs, highlight_tokens line toks = Ok rs /\ tiles 0 (blen line) rs.
Proof. exact highlight_tokens_total. Qed.

Theorem C05_highlight_line : forall line, exists rs, highlight line = Ok rs /\ tiles 0 (blen line) rs.
Proof. exact highlight_total. Qed.

Theorem C05_range_no_panic : forall line cur tok s,
  boundary line cur -> find_token_range line cur tok <> Panic s.
Proof. exact find_token_range_no_panic. Qed.

Theorem C05_slice_exact : forall l b, (exists s, slice_from l b = Some s) <-> boundary l b.
Proof. exact slice_from_boundary. Qed.

Theorem C05_word_start_total : forall l, boundary l (escaped_word_start l).
Proof. exact escaped_word_start_boundary. Qed.

Theorem C05_from_tokens_total : forall l, from_tokens l <> inr PFuel.
Proof. exact from_tokens_total. Qed.

Theorem C05_plan_total : forall toks, plan_tokens toks <> inr PFuel.
Proof. exact plan_tokens_total. Qed.

Theorem C05_tokenizer_lookups :
  (forall l i, lookahead_guarded l i = Ok (peek (skipn (i + 1) l))) /\
  (forall l i, (i < length l)%nat -> exists b, rparen_guarded l i = Ok b) /\
  (forall (r : list token), exists o, last_guarded r = Ok o).
Proof. exact (conj lookahead_guarded_ok (conj rparen_guarded_ok (@last_guarded_ok token))). Qed.

(** Alias expansion (shell.rs expand_alias, a stage of do_expansion): the
    [Vec::remove] / [Vec::insert] calls of its second loop are never out of
    range -- for ANY alias table, ANY token list and ANY tokenizer, i.e. for
    alias values that tokenize to zero words (only blanks, a comment), one
    word or many -- and the result is C17's total [expand_alias]. *)
Theorem C05_alias_total : forall (tokenize : str -> list Alias.token) t toks,
  expand_alias_sites tokenize t toks = Ok (Alias.expand_alias tokenize t toks).
Proof. exact expand_alias_sites_total. Qed.

Theorem C05_alias_total_parse_line : forall t toks,
  exists r, expand_alias_sites parse_line t toks = Ok r.
Proof. intros. eexists. apply expand_alias_sites_total. Qed.

(** Non-vacuity: [b] is an alias for two blanks, [n] for a comment, [l] for two words;
    the line [n] becomes empty, [x | b] keeps only [x |], [l | n | l z] expands both heads *)
Example C05_alias_nonvacuous :
  let t := [([98%N], [32%N; 32%N]); ([110%N], [35%N; 99%N]); ([108%N], [108%N; 115%N; 32%N; 45%N; 108%N])] in
  expand_alias_sites parse_line t [(TNone, [110%N])] = Ok [] /\
  expand_alias_sites parse_line t [(TNone, [120%N]); (TNone, [124%N]); (TNone, [98%N])] =
    Ok [(TNone, [120%N]); (TNone, [124%N])] /\
  expand_alias_sites parse_line t [(TNone, [108%N]); (TNone, [124%N]); (TNone, [110%N]); (TNone, [124%N]); (TNone, [108%N]); (TNone, [122%N])] =
    Ok [(TNone, [108%N; 115%N]); (TNone, [45%N; 108%N]); (TNone, [124%N]); (TNone, [124%N]);
        (TNone, [108%N; 115%N]); (TNone, [45%N; 108%N]); (TNone, [122%N])].
Proof. repeat split; vm_compute; reflexivity. Qed.

(** The full statement for the planner: whatever tokens expansion delivers,
    if they plan, the first-word look-ups do not panic. *)
Definition lookups_fine (f : fw) : Prop := f = FwSkip \/ f = FwRun [].
Theorem C05_full : forall toks cl,
  plan_tokens toks = inl cl -> lookups_fine (first_word_lookups false cl).
Proof. exact plan_full. Qed.

Local Open Scope N_scope.
(** Regression: [> f], [a>b>c] (the word is silently dropped) and [e | > f]
    are rejected with the empty-command error; the planner without the check
    planned them and the look-ups panicked (in the shell, in the shell, in
    child 1). *)
Example C05_regression :
  plan_and_lookup false [(TNone, [62]); (TNone, [102])] = SErr PEmpty /\
  plan_and_lookup false [(TNone, [97; 62; 98; 62; 99])] = SErr PEmpty /\
  plan_and_lookup false [(TNone, [101]); (TNone, [124]); (TNone, [62]); (TNone, [102])] = SErr PEmpty /\
  plan_and_lookup_old false [(TNone, [62]); (TNone, [102])] =
    SPlan (mkcl [mkc [] [([49], [62], [102])] None] [] false) FwPanicShell /\
  plan_and_lookup_old false [(TNone, [97; 62; 98; 62; 99])] = SPlan (mkcl [mkc [] [] None] [] false) FwPanicShell /\
  (exists cl, plan_and_lookup_old false [(TNone, [101]); (TNone, [124]); (TNone, [62]); (TNone, [102])] =
     SPlan cl (FwRun [1%nat])).
Proof. repeat split; try (eexists; vm_compute; reflexivity); vm_compute; reflexivity. Qed.

(** an earlier stage's redirection error still wins over a later empty stage *)
Example C05_error_order :
  plan_and_lookup false [(TNone, [97; 62]); (TNone, [124]); (TNone, [62]); (TNone, [102])] = SErr (PRedir ESyntax) /\
  plan_and_lookup false [(TNone, [62]); (TNone, [102]); (TNone, [124]); (TNone, [97; 62])] = SErr PEmpty.
Proof. split; vm_compute; reflexivity. Qed.

(** The check changed nothing where the planner without it produced no wordless command. *)
Theorem C05_fix_conservative : forall toks cl,
  plan_tokens_old toks = inl cl -> plans_empty_command cl = false -> plan_tokens toks = inl cl.
Proof. exact plan_old_conservative. Qed.

Theorem C05_first_word_exact : forall cl,
  lookups_fine (first_word_lookups false cl) <-> plans_empty_command cl = false.
Proof. exact first_word_exact. Qed.

Theorem C05_shell_panic_iff : forall cl,
  first_word_lookups false cl = FwPanicShell <-> exists c0 r, cl_cmds cl = c0 :: r /\ no_words c0 = true.
Proof. exact shell_panic_iff. Qed.

Theorem C05_head_word : forall t l c, safe_word t = true ->
  from_tokens (t :: l) = inl c -> exists r, c_tokens c = t :: r.
Proof. exact from_tokens_head_word. Qed.

Theorem C05_never_empty_with_head_words : forall segs,
  forallb head_safe segs = true -> map_cmds segs <> inr PEmpty.
Proof. exact map_cmds_head_safe. Qed.

Check C05_highlight_total : forall line toks,
  exists rs, highlight_tokens line toks = Ok rs /\ tiles 0 (blen line) rs.
Check C05_word_start_total : forall l, boundary l (escaped_word_start l).
Check C05_from_tokens_total : forall l, from_tokens l <> inr PFuel.
Check C05_full : forall toks cl, plan_tokens toks = inl cl -> lookups_fine (first_word_lookups false cl).

(** Non-vacuity: a multi-byte line with a quoted token; a pipeline that plans with words. *)
Example C05_nonvacuous :
  highlight [233; 32; 39; 8364; 39; 32; 124; 32; 120] =
    Ok [(0, 2); (2, 3); (3, 8); (8, 9); (9, 10); (10, 11); (11, 12)]%nat /\
  escaped_word_start [108; 115; 32; 102; 248; 111; 32; 98] = 8%nat /\
  (exists cl, plan_and_lookup false (parse_line [97; 32; 124; 32; 98; 32; 62; 32; 102]) = SPlan cl (FwRun [])) /\
  known_foreign [101; 32; 36; 40; 108; 32; 62; 41] = [] /\
  k_calc_deep (repeat 40 1000 ++ [49] ++ repeat 41 1000 ++ [43; 49]) = true.
Proof. repeat split; try (eexists; vm_compute; reflexivity); vm_compute; reflexivity. Qed.

Print Assumptions C05_highlight_total.
Print Assumptions C05_highlight_line.
Print Assumptions C05_range_no_panic.
Print Assumptions C05_slice_exact.
Print Assumptions C05_word_start_total.
Print Assumptions C05_from_tokens_total.
Print Assumptions C05_plan_total.
Print Assumptions C05_tokenizer_lookups.
Print Assumptions C05_alias_total.
Print Assumptions C05_alias_total_parse_line.
Print Assumptions C05_full.
Print Assumptions C05_regression.
Print Assumptions C05_fix_conservative.
Print Assumptions C05_first_word_exact.
Print Assumptions C05_shell_panic_iff.
Print Assumptions C05_head_word.
Print Assumptions C05_never_empty_with_head_words.
