(** C13 -- results of expansions are data and are never re-read as shell syntax.
    Statements only; proofs in Proofs/{PlanInert,ExpandUntagged,C13Proofs}.v (on top of
    Proofs/{TokenizerProofs,RedirectProofs,ExpandInert}.v).

    Model: [Model/FullPlan.v] [plan W fuel line] = CommandLine::from_line: tokenizer, the
    seven expansion passes, then assignments / background marker / pipes / input and output
    redirections on the REWRITTEN tokens.  [one_cmd words] = the plan of one foreground
    command with exactly these words and nothing else.

    Status.
    - [C13_dq] (FULL, text level, unbounded): a double-quoted word with a reference, at any
      position among quoted arguments, for EVERY value that holds no backquote and no
      dollar-paren: one command, the word is pre ++ value ++ post as ONE argument.  Operator
      characters, blanks, quotes, dollars, braces, stars, newlines in the value are data.
    - [C13_subst_refuted]: the excluded values are a genuine defect -- a value holding a
      command substitution is EXECUTED, also inside double quotes (class value_cmd_substituted).
    - [C13_unquoted_full] is FALSE: [C13_refuted].  [C13_unquoted_partial] proves it outside
      [Known_C13], and [C13_unquoted_exact] shows that Known_C13 names EXACTLY the failing
      values (an iff), from the token list on; [C13_unquoted_exact_text] is the same iff
      from the TEXT of the line (tokenizer step: [C13_tokenize_unquoted]).
      The witnesses [C13_witness_*] go through the whole of [plan] from the text.
    - [C13_dq_in_alias_body] (FULL, text level): [C13_dq] when the double-quoted word is written in
      the value of an alias used as the command word: expand_alias inserts the value's tokens
      WITH their tags.
    - [C13_glob_blank] (FULL, text level): filename expansion -- a pattern word whose matched
      paths all hold a blank (in ANY component: the tag is decided on the whole path,
      [C13_glob_tag_whole_path]) plans as one command, each path one double-quoted word, no
      redirection.  Paths without a blank stay untagged: classes untagged_*.
    - [C13_post_passes_from], [C13_dq_with_input]: a line that ALSO carries a genuine input
      redirection ([<] / [<<<] written unquoted): the operator acts on its own target and the
      quoted arguments -- whatever their values, the words [<] and [<<<] included -- stay words.
    - [C13_post_passes] / [C13_post_passes_exact]: whatever ANY expansion produced (variable,
      command substitution, glob match), the passes after the expansions plan one plain
      command iff no produced token is in Known_C13 -- the general statement behind the
      classes untagged_gt / untagged_pipe / untagged_lt / untagged_amp_last.
      [C13_glob_refuted], [C13_output_refuted]: a file name / an output with a [>] does
      become a redirection. *)
From Coq Require Import List NArith ZArith Bool.
From Cicada Require Import Base.Chars Base.Tag Model.Tokenizer Model.Expand Model.ExpandRef Model.Redirect Model.FullPlan.
From Cicada Require Import Proofs.TokenizerProofs Proofs.TokenizerWordProofs Proofs.SubstProofs Proofs.ExpandBasics Proofs.C13Proofs.
From Cicada Require Proofs.ExpandUntagged Proofs.GlobTagProofs Proofs.AliasBodyProofs.
From Cicada Require Proofs.RedirectProofs Proofs.PlanInert Proofs.ExpandInert.
Import ListNotations.
From Coq Require String.
Import String.StringSyntax.
Local Open Scope N_scope.

(** The failing classes, on one token AFTER the expansions, [last] = it is the last token of
    the line: an untagged token with a [>] (untagged_gt), the untagged words [|]
    (untagged_pipe), [<] and [<<<] (untagged_lt), the untagged word [&] in last position
    (untagged_amp_last). *)
Definition Known_C13 (t : Redirect.token) (last : bool) : bool :=
  tag_eqb (fst t) TNone &&
  (has_char c_gt (snd t) || str_eqb (snd t) [c_pipe] || str_eqb (snd t) s_lt || str_eqb (snd t) s_lt3
   || att_lt (TNone, snd t)           (* /repo 543507e: an unquoted value <file becomes < file: class untagged_lt_file *)
   || (last && str_eqb (snd t) [c_amp])).

(* ------------------------------------------------------------------ double quotes: full *)
Theorem C13_dq : forall W fuel cmd (args1 args2 : list (nat * qarg)) n noeq br (pre name post : str),
  plain_word cmd = true -> forallb arith_body cmd = false -> split_env cmd = None -> ExpandInert.cmd_ok W cmd ->
  forallb (fun '(_, a) => wf_qarg a) args1 = true -> forallb (fun '(_, a) => wf_qarg a) args2 = true ->
  Forall (fun '(_, a) => calm_qarg a) args1 -> Forall (fun '(_, a) => calm_qarg a) args2 ->
  wf_qarg (QDq (pre ++ render_piece (PRef br name) ++ post)) = true ->
  ~ In 36 pre -> ~ In 36 post -> forallb (okg noeq) (pre ++ post) = true -> is_name name = true ->
  (br = true \/ match post with c :: _ => is_alnum_us c = false | [] => True end) ->
  ~ In 96 (pre ++ key_value W name ++ post) -> has_dollar_paren (pre ++ key_value W name ++ post) = false ->
  plan W fuel (render_cmd cmd (args1 ++ (n, QDq (pre ++ render_piece (PRef br name) ++ post)) :: args2))
  = Ok (one_cmd ((TNone, cmd) :: toks_of args1 ++ (TDq, pre ++ key_value W name ++ post) :: toks_of args2)).
Proof. exact plan_dq_value. Qed.

(* ------------------------------------------------------------------ unquoted: refuted / partial / exact *)
(** the hypotheses shared by the unquoted statements: command word, quoted neighbours, the
    written word pre $NAME post, and what the expansion passes ask of the produced text *)
Definition unquoted_dom W cmd (l1 l2 : list Redirect.token) noeq br (pre name post : str) : Prop :=
  RedirectProofs.cmd_ok cmd = true /\ ExpandInert.cmd_ok W cmd /\
  Forall ExpandInert.inert l1 /\ Forall ExpandInert.inert l2 /\
  ~ In 36 pre /\ ~ In 36 post /\ ~ In 126 pre /\ forallb (okg noeq) (pre ++ post) = true /\ is_name name = true /\
  (br = true \/ match post with c :: _ => is_alnum_us c = false | [] => True end) /\
  let text := pre ++ key_value W name ++ post in
  ~ In 96 text /\ has_dollar_paren text = false /\ ~ In 42 text /\ ~ In 123 text.

Definition C13_unquoted_full : Prop :=
  forall W fuel cmd l1 l2 noeq br pre name post, unquoted_dom W cmd l1 l2 noeq br pre name post ->
  plan_toks W fuel ((TNone, cmd) :: l1 ++ (TNone, pre ++ render_piece (PRef br name) ++ post) :: l2)
  = Ok (one_cmd ((TNone, cmd) :: l1 ++ (TNone, pre ++ key_value W name ++ post) :: l2)).

Theorem C13_unquoted_exact : forall W fuel cmd l1 l2 noeq br pre name post,
  unquoted_dom W cmd l1 l2 noeq br pre name post ->
  (plan_toks W fuel ((TNone, cmd) :: l1 ++ (TNone, pre ++ render_piece (PRef br name) ++ post) :: l2)
   = Ok (one_cmd ((TNone, cmd) :: l1 ++ (TNone, pre ++ key_value W name ++ post) :: l2))
   <-> Known_C13 (TNone, pre ++ key_value W name ++ post) (is_empty l2) = false).
Proof.
  intros W fuel cmd l1 l2 noeq br pre name post (H1 & H2 & H3 & H4 & H5 & H6 & H7 & H8 & H9 & H10 & H11 & H12 & H13 & H14).
  exact (plan_unquoted_value_iff W fuel cmd l1 l2 noeq br pre name post H1 H2 H3 H4 H5 H6 H7 H8 H9 H10 H11 H12 H13 H14).
Qed.

Theorem C13_unquoted_partial : forall W fuel cmd l1 l2 noeq br pre name post,
  unquoted_dom W cmd l1 l2 noeq br pre name post ->
  Known_C13 (TNone, pre ++ key_value W name ++ post) (is_empty l2) = false ->
  plan_toks W fuel ((TNone, cmd) :: l1 ++ (TNone, pre ++ render_piece (PRef br name) ++ post) :: l2)
  = Ok (one_cmd ((TNone, cmd) :: l1 ++ (TNone, pre ++ key_value W name ++ post) :: l2)).
Proof.
  intros W fuel cmd l1 l2 noeq br pre name post D K.
  exact (proj2 (C13_unquoted_exact W fuel cmd l1 l2 noeq br pre name post D) K).
Qed.

(** witness: A is the pipe word, the line is  echo $A  *)
Definition W_pipe : World := world_of [(s2l "A", [124])] [].
Lemma echo_ok W : aliases W (s2l "echo") = None -> ExpandInert.cmd_ok W (s2l "echo").
Proof.
  intros Ha. constructor.
  - exact Ha.
  - repeat split; intros H; vm_compute in H; discriminate H.
  - repeat split; intros H; vm_compute in H; intuition discriminate.
  - exists 101. split; [left; reflexivity|reflexivity].
Qed.

Theorem C13_refuted : ~ C13_unquoted_full.
Proof.
  intros H. specialize (H W_pipe 5%nat (s2l "echo") [] [] true false [] (s2l "A") []).
  assert (D : unquoted_dom W_pipe (s2l "echo") [] [] true false [] (s2l "A") []).
  { unfold unquoted_dom. split; [reflexivity|]. split; [apply echo_ok; reflexivity|].
    split; [constructor|]. split; [constructor|].
    split; [intros []|]. split; [intros []|]. split; [intros []|]. split; [reflexivity|]. split; [reflexivity|].
    split; [right; exact I|].
    cbv zeta. repeat split; try reflexivity; intros X; vm_compute in X; intuition discriminate. }
  specialize (H D). vm_compute in H. discriminate H.
Qed.

(* ------------------------------------------------------------------ witnesses through the whole of [plan], from the text *)
Definition W_of (v : String.string) : World := world_of [(s2l "A", s2l v)] [].
Definition tk (s : String.string) : Redirect.token := (TNone, s2l s).
Arguments W_of v%string.
Arguments tk s%string.

(** A is the pipe word:  echo x $A cat  is a pipeline of two commands *)
Example C13_witness_pipe :
  plan (W_of "|") 5 (s2l "echo x $A cat")
  = Ok (inl (mkcl [mkc [tk "echo"; tk "x"] [] None; mkc [tk "cat"] [] None] [] false)).
Proof. vm_compute. reflexivity. Qed.

(** A = a>zz :  echo $A  writes to the file zz and passes only a *)
Example C13_witness_gt :
  plan (W_of "a>zz") 5 (s2l "echo $A")
  = Ok (inl (mkcl [mkc [tk "echo"; tk "a"] [(s2l "1", s2l ">", s2l "zz")] None] [] false)).
Proof. vm_compute. reflexivity. Qed.

(** A = 2>&1 :  echo $A  redirects descriptor 2 *)
Example C13_witness_dup :
  plan (W_of "2>&1") 5 (s2l "echo $A")
  = Ok (inl (mkcl [mkc [tk "echo"] [(s2l "2", s2l ">", s2l "&1")] None] [] false)).
Proof. vm_compute. reflexivity. Qed.

(** A is the ampersand word in last position:  echo x $A  runs in the background *)
Example C13_witness_amp :
  plan (W_of "&") 5 (s2l "echo x $A")
  = Ok (inl (mkcl [mkc [tk "echo"; tk "x"] [] None] [] true)).
Proof. vm_compute. reflexivity. Qed.

(** A is the less-than word:  echo $A f  reads the file f *)
Example C13_witness_lt :
  plan (W_of "<") 5 (s2l "echo $A f")
  = Ok (inl (mkcl [mkc [tk "echo"] [] (Some (s2l "<", s2l "f"))] [] false)).
Proof. vm_compute. reflexivity. Qed.

(** the same values inside double quotes are data (instances of C13_dq, here computed);
    34 = the double quote character *)
Example C13_witness_dq :
  plan (W_of "a>zz") 5 (s2l "echo " ++ [34] ++ s2l "$A" ++ [34])
  = Ok (one_cmd [tk "echo"; (TDq, s2l "a>zz")]).
Proof. vm_compute. reflexivity. Qed.

(** a value holding a command substitution is executed, also inside double quotes: the inner
    line  touch pwned  is handed to the shell (second component = the lines run, in order) *)
Theorem C13_subst_refuted :
  plan_log (W_of "$(touch pwned)") 5 (s2l "echo " ++ [34] ++ s2l "$A" ++ [34])
  = Ok ([tk "echo"; (TDq, [])], [s2l "touch pwned"], one_cmd [tk "echo"; (TDq, [])]).
Proof. vm_compute. reflexivity. Qed.

(** a file named a>b matched by a star, an output a>b of a command substitution: redirections *)
Definition W_glob : World :=
  mkWorld (fun _ => None) (fun _ => None) 0%Z 1%Z (s2l "/h") (fun p => if str_eqb p [42] then Some [s2l "a>b"] else Some [])
          (fun l => if str_eqb l (s2l "cmd") then Some (s2l "a>b") else Some []) (fun _ => None).

Theorem C13_glob_refuted :
  plan W_glob 5 (s2l "echo *")
  = Ok (inl (mkcl [mkc [tk "echo"; tk "a"] [(s2l "1", s2l ">", s2l "b")] None] [] false)).
Proof. vm_compute. reflexivity. Qed.

Theorem C13_output_refuted :
  plan W_glob 5 (s2l "echo $(cmd)")
  = Ok (inl (mkcl [mkc [tk "echo"; tk "a"] [(s2l "1", s2l ">", s2l "b")] None] [] false)).
Proof. vm_compute. reflexivity. Qed.

(* ------------------------------------------------------------------ the passes after the expansions, any token list *)
Theorem C13_post_passes : forall cmd l,
  RedirectProofs.cmd_ok cmd = true -> forallb PlanInert.inert_tok l = true -> PlanInert.last_amp l = false ->
  plan_tokens ((TNone, cmd) :: l) = one_cmd ((TNone, cmd) :: l).
Proof. exact PlanInert.plan_inert. Qed.

Theorem C13_post_passes_exact : forall cmd (l : list Redirect.token),
  RedirectProofs.cmd_ok cmd = true ->
  (plan_tokens ((TNone, cmd) :: l) = one_cmd ((TNone, cmd) :: l)
   <-> forallb PlanInert.inert_tok l = true /\ PlanInert.last_amp l = false).
Proof. exact PlanInert.plan_inert_iff. Qed.

(** Known_C13 is the negation of these two conditions, token by token *)
Theorem C13_known_is_not_inert : forall t last,
  Known_C13 t last = false <-> PlanInert.inert_tok t = true /\ (last = true -> PlanInert.amp_tok t = false).
Proof. exact known_tok_split. Qed.

(* ------------------------------------------------------------------ round 2: unquoted reference from the TEXT *)
(** [C13_unquoted_exact] with the tokenizer step proved ([Proofs/TokenizerWordProofs.v]
    parse_line_one_unquoted): the line is TEXT -- command word, quoted arguments, the unquoted
    word pre $NAME post (ordinary characters, dollar, braces), quoted arguments. *)
Theorem C13_unquoted_exact_text : forall W fuel cmd (args1 args2 : list (nat * qarg)) n noeq br (pre name post : str),
  plain_word cmd = true -> forallb arith_body cmd = false -> split_env cmd = None -> ExpandInert.cmd_ok W cmd ->
  forallb (fun '(_, a) => wf_qarg a) args1 = true -> forallb (fun '(_, a) => wf_qarg a) args2 = true ->
  Forall (fun '(_, a) => calm_qarg a) args1 -> Forall (fun '(_, a) => calm_qarg a) args2 ->
  forallb wchar (pre ++ render_piece (PRef br name) ++ post) = true ->
  ~ In 36 pre -> ~ In 36 post -> ~ In 126 pre -> forallb (okg noeq) (pre ++ post) = true -> is_name name = true ->
  (br = true \/ match post with c :: _ => is_alnum_us c = false | [] => True end) ->
  let text := pre ++ key_value W name ++ post in
  ~ In 96 text -> has_dollar_paren text = false -> ~ In 42 text -> ~ In 123 text ->
  (plan W fuel (render_cmd cmd args1 ++ c_space :: spaces n ++ (pre ++ render_piece (PRef br name) ++ post) ++ render_args args2)
   = Ok (one_cmd ((TNone, cmd) :: toks_of args1 ++ (TNone, text) :: toks_of args2))
   <-> Known_C13 (TNone, text) (is_empty args2) = false).
Proof. exact plan_unquoted_value_text_iff. Qed.

(** the tokenizer lemma itself: one untagged token per unquoted word of ordinary characters and dollars *)
Theorem C13_tokenize_unquoted : forall cmd (args1 args2 : list (nat * qarg)) n (w : str),
  plain_word cmd = true -> forallb arith_body cmd = false ->
  forallb (fun '(_, a) => wf_qarg a) args1 = true -> forallb (fun '(_, a) => wf_qarg a) args2 = true ->
  w <> [] -> forallb wchar w = true ->
  parse_line (render_cmd cmd args1 ++ c_space :: spaces n ++ w ++ render_args args2)
  = (TNone, cmd) :: map (fun '(_, a) => tok_of_qarg a) args1 ++ (TNone, w) :: map (fun '(_, a) => tok_of_qarg a) args2.
Proof. exact parse_line_one_unquoted. Qed.

(* ------------------------------------------------------------------ round 2: a produced value next to a GENUINE input redirection *)
(** passes after the expansions: [cmd a.. OP target b..], OP the untagged word [<] or [<<<],
    everything else tagged or harmless: the operator and its target are taken out and nothing
    else -- in particular a TAGGED token whose text is [<] stays a word. *)
Theorem C13_post_passes_from : forall cmd (a b : list Redirect.token) op tgt,
  RedirectProofs.cmd_ok cmd = true -> forallb PlanInert.inert_tok a = true -> forallb PlanInert.inert_tok b = true ->
  PlanInert.inert_tok tgt = true -> PlanInert.last_amp (tgt :: b) = false -> (op = s_lt \/ op = s_lt3) ->
  plan_tokens ((TNone, cmd) :: a ++ (TNone, op) :: tgt :: b) =
  inl (mkcl [mkc ((TNone, cmd) :: a ++ b) [] (Some (op, snd tgt))] [] false).
Proof. exact PlanInert.plan_inert_from. Qed.

(** through the expansions too: a.. and b.. are quoted arguments in the sense of
    [ExpandInert.tok_ok] (single-quoted; double-quoted without dollar; double-quoted words with
    references, replaced by their value -- ANY value without backquote and dollar-paren), before
    and / or after the genuine operator *)
Theorem C13_dq_with_input : forall W fuel cmd a a' b b' op (f : str),
  RedirectProofs.cmd_ok cmd = true -> ExpandInert.cmd_ok W cmd ->
  Forall2 (ExpandInert.tok_ok W) a a' -> Forall2 (ExpandInert.tok_ok W) b b' ->
  (op = s_lt \/ op = s_lt3) -> ExpandUntagged.lit_ok f = true -> PlanInert.inert_tok (TNone, f) = true ->
  str_eqb f [c_amp] = false ->
  plan_toks W fuel ((TNone, cmd) :: a ++ (TNone, op) :: (TNone, f) :: b)
  = Ok (inl (mkcl [mkc ((TNone, cmd) :: a' ++ b') [] (Some (op, f))] [] false)).
Proof. exact plan_toks_with_from. Qed.

(** the seeded scenario, from the text:  OP is the less-than word;  grep -c (dq)$OP(dq) < page
    runs grep -c with the ONE argument less-than and stdin from page *)
Example C13_witness_value_and_genuine_lt :
  plan (world_of [(s2l "OP", s2l "<")] []) 5 (s2l "grep -c " ++ [34] ++ s2l "$OP" ++ [34] ++ s2l " < page")
  = Ok (inl (mkcl [mkc [tk "grep"; tk "-c"; (TDq, s2l "<")] [] (Some (s2l "<", s2l "page"))] [] false)).
Proof. vm_compute. reflexivity. Qed.

Print Assumptions C13_unquoted_exact_text.
Print Assumptions C13_tokenize_unquoted.
Print Assumptions C13_post_passes_from.
Print Assumptions C13_dq_with_input.

(* ------------------------------------------------------------------ round 4: filename expansion, blank in ANY path component *)
(** the protective tag of a produced name is decided on the WHOLE matched path *)
Theorem C13_glob_tag_whole_path : forall s, contains_char 32 s = true -> retag s = (TDq, s).
Proof. exact GlobTagProofs.retag_blank. Qed.

(** expand_glob on one pattern word among tokens it skips: exactly the matched names, each through [retag] *)
Theorem C13_expand_glob_one : forall W (pre post : tokens) (pat : str) (names : list str),
  Forall ExpandInert.still pre -> Forall ExpandInert.still post ->
  needs_globbing pat = true -> glob_one W pat = Some names ->
  expand_glob W (pre ++ (TNone, pat) :: post) = Ok (pre ++ map retag names ++ post).
Proof. exact GlobTagProofs.expand_glob_one. Qed.

(** from the TEXT: a pattern word (ordinary characters and stars, star in ANY component) at any
    position among quoted arguments; every matched path holds a blank (and no backquote /
    dollar-paren -- the substitution passes run after glob): ONE foreground command, each
    path ONE double-quoted word, NO redirection / pipe / background, whatever operator
    characters the paths hold in whichever component. *)
Theorem C13_glob_blank : forall W fuel cmd (args1 args2 : list (nat * qarg)) n (pat : str) names,
  plain_word cmd = true -> forallb arith_body cmd = false -> split_env cmd = None -> ExpandInert.cmd_ok W cmd ->
  forallb (fun '(_, a) => wf_qarg a) args1 = true -> forallb (fun '(_, a) => wf_qarg a) args2 = true ->
  Forall (fun '(_, a) => calm_qarg a) args1 -> Forall (fun '(_, a) => calm_qarg a) args2 ->
  forallb wchar pat = true ->
  needs_globbing pat = true -> ~ In 36 pat -> ~ In 96 pat -> ~ In 123 pat -> strip_prefix [126] pat = None ->
  glob_one W pat = Some names ->
  forallb (contains_char 32) names = true ->
  Forall (fun s => ~ In 96 s /\ has_dollar_paren s = false) names ->
  plan W fuel (render_cmd cmd args1 ++ c_space :: spaces n ++ pat ++ render_args args2)
  = Ok (one_cmd ((TNone, cmd) :: toks_of args1 ++ map (fun s => (TDq, s)) names ++ toks_of args2)).
Proof. exact GlobTagProofs.glob_blank_one_cmd_text. Qed.

(** the seeded scenario: a directory named  p >q  holding f, the line  echo */f ; and non-vacuity of
    the hypotheses of C13_glob_blank on it *)
Definition W_dir : World :=
  mkWorld (fun _ => None) (fun _ => None) 0%Z 1%Z (s2l "/h")
          (fun p => if str_eqb p (s2l "*/f") then Some [s2l "p >q/f"; s2l "<a b/f"] else Some [])
          (fun _ => Some []) (fun _ => None).
Example C13_witness_glob_dir :
  plan W_dir 5 (s2l "echo */f") = Ok (one_cmd [tk "echo"; (TDq, s2l "p >q/f"); (TDq, s2l "<a b/f")]) /\
  forallb wchar (s2l "*/f") = true /\ needs_globbing (s2l "*/f") = true /\
  glob_one W_dir (s2l "*/f") = Some [s2l "p >q/f"; s2l "<a b/f"] /\
  forallb (contains_char 32) [s2l "p >q/f"; s2l "<a b/f"] = true.
Proof. vm_compute. repeat split. Qed.

Print Assumptions C13_glob_tag_whole_path.
Print Assumptions C13_expand_glob_one.
Print Assumptions C13_glob_blank.

(* ------------------------------------------------------------------ round 5: a double-quoted reference written in an ALIAS BODY *)
(** [C13_dq] for the delivery path "alias body": the line is the alias word plus quoted
    arguments; the alias value is a command line as in [C13_dq] (command word that is not itself
    an alias, quoted arguments, one double-quoted word with a reference).  [expand_alias] runs
    first and inserts the TOKENS of the value, tags included, so the value of the reference is
    ONE argument: one foreground command, the body's words then the line's arguments, no
    redirection / pipe / background, for every value without backquote and dollar-paren. *)
Theorem C13_dq_in_alias_body : forall W fuel (aname : str) (args : list (nat * qarg))
    cmd (bargs1 bargs2 : list (nat * qarg)) n noeq br (pre name post : str),
  plain_word aname = true -> forallb arith_body aname = false ->
  aname <> s2l "xargs" -> aname <> s2l "export" -> (exists c, In c aname /\ ExpandInert.arith_char c = false) ->
  forallb (fun '(_, a) => wf_qarg a) args = true -> Forall (fun '(_, a) => calm_qarg a) args ->
  aliases W aname = Some (render_cmd cmd (bargs1 ++ (n, QDq (pre ++ render_piece (PRef br name) ++ post)) :: bargs2)) ->
  plain_word cmd = true -> forallb arith_body cmd = false -> split_env cmd = None -> ExpandInert.cmd_ok W cmd ->
  forallb (fun '(_, a) => wf_qarg a) bargs1 = true -> forallb (fun '(_, a) => wf_qarg a) bargs2 = true ->
  Forall (fun '(_, a) => calm_qarg a) bargs1 -> Forall (fun '(_, a) => calm_qarg a) bargs2 ->
  wf_qarg (QDq (pre ++ render_piece (PRef br name) ++ post)) = true ->
  ~ In 36 pre -> ~ In 36 post -> forallb (okg noeq) (pre ++ post) = true -> is_name name = true ->
  (br = true \/ match post with c :: _ => is_alnum_us c = false | [] => True end) ->
  ~ In 96 (pre ++ key_value W name ++ post) -> has_dollar_paren (pre ++ key_value W name ++ post) = false ->
  plan W fuel (render_cmd aname args)
  = Ok (one_cmd ((TNone, cmd) :: toks_of bargs1 ++ (TDq, pre ++ key_value W name ++ post) :: toks_of bargs2 ++ toks_of args)).
Proof. exact AliasBodyProofs.plan_dq_in_alias_body. Qed.

(** the seeded scenario, computed from the text: alias show = prog y (dq)$A(dq) z ; A = a>b ; line  show 'w' *)
Definition W_alias : World :=
  mkWorld (fun _ => None) (fun k => if str_eqb k (s2l "A") then Some (s2l "a>b") else None) 0%Z 1%Z (s2l "/h")
          (fun _ => Some []) (fun _ => Some [])
          (fun k => if str_eqb k (s2l "show") then Some (s2l "prog y " ++ [34] ++ s2l "$A" ++ [34] ++ s2l " z") else None).
Example C13_witness_alias_body :
  plan W_alias 5 (s2l "show 'w'") = Ok (one_cmd [tk "prog"; tk "y"; (TDq, s2l "a>b"); tk "z"; (TSq, s2l "w")]).
Proof. vm_compute. reflexivity. Qed.

Print Assumptions C13_dq_in_alias_body.

Check C13_dq.
Check C13_unquoted_partial : forall W fuel cmd l1 l2 noeq br pre name post,
  unquoted_dom W cmd l1 l2 noeq br pre name post ->
  Known_C13 (TNone, pre ++ key_value W name ++ post) (is_empty l2) = false ->
  plan_toks W fuel ((TNone, cmd) :: l1 ++ (TNone, pre ++ render_piece (PRef br name) ++ post) :: l2)
  = Ok (one_cmd ((TNone, cmd) :: l1 ++ (TNone, pre ++ key_value W name ++ post) :: l2)).

(** Non-vacuity of C13_dq: prog 'y' (dq)p${A}.q(dq) 'z' with A = x>y | z & (a value with operator characters,
    a dollar and a newline) meets every hypothesis; and the unquoted domain is inhabited by a harmless value. *)
Example C13_nonvacuous :
  let W := world_of [(s2l "A", s2l "x>y|z&;#$B" ++ [10] ++ s2l "{*}")] [] in
  let cmd := s2l "prog" in
  let pre := s2l "p" in let post := s2l ".q" in let name := s2l "A" in
  let a1 := [(0%nat, QSq (s2l "y"))] in let a2 := [(2%nat, QSq (s2l "z|"))] in
  plain_word cmd = true /\ forallb arith_body cmd = false /\ split_env cmd = None /\
  forallb (fun '(_, a) => wf_qarg a) a1 = true /\ forallb (fun '(_, a) => wf_qarg a) a2 = true /\
  wf_qarg (QDq (pre ++ render_piece (PRef true name) ++ post)) = true /\
  forallb (okg true) (pre ++ post) = true /\ is_name name = true /\
  has_dollar_paren (pre ++ key_value W name ++ post) = false /\
  plan W 5 (render_cmd cmd (a1 ++ (1%nat, QDq (pre ++ render_piece (PRef true name) ++ post)) :: a2))
  = Ok (one_cmd ((TNone, cmd) :: toks_of a1 ++ (TDq, pre ++ key_value W name ++ post) :: toks_of a2)) /\
  parse_line (s2l "prog 'y' p${A}.q 'z'") = [(TNone, cmd); (TSq, s2l "y"); (TNone, s2l "p${A}.q"); (TSq, s2l "z")] /\
  Known_C13 (TNone, s2l "p;#x.q") false = false.
Proof. vm_compute. repeat split. Qed.

Print Assumptions C13_dq.
Print Assumptions C13_unquoted_exact.
Print Assumptions C13_unquoted_partial.
Print Assumptions C13_refuted.
Print Assumptions C13_subst_refuted.
Print Assumptions C13_glob_refuted.
Print Assumptions C13_output_refuted.
Print Assumptions C13_post_passes.
Print Assumptions C13_post_passes_exact.
Print Assumptions C13_known_is_not_inert.
