(** C13 -- results of expansions are data and are never re-read as shell syntax.
    Statements only; proofs in Proofs/PlanInert.v (passes after the expansions). *)
From Cicada Require Import Base.Chars Base.Tag Model.Redirect Proofs.RedirectProofs Proofs.PlanInert.
Local Open Scope N_scope.

(** The failing classes, on one token AFTER the expansions: an untagged token with a [>],
    the untagged words [|] [<] [<<<], the untagged word [&] in last position. *)
Definition Known_C13 (t : token) (last : bool) : bool :=
  tag_eqb (fst t) TNone &&
  (has_char c_gt (snd t) || str_eqb (snd t) [c_pipe] || str_eqb (snd t) s_lt || str_eqb (snd t) s_lt3
   || (last && str_eqb (snd t) [c_amp])).

Theorem C13_post_passes : forall cmd l,
  cmd_ok cmd = true -> forallb inert_tok l = true -> last_amp l = false ->
  plan_tokens ((TNone, cmd) :: l) = inl (mkcl [mkc ((TNone, cmd) :: l) [] None] [] false).
Proof. exact plan_inert. Qed.

Print Assumptions C13_post_passes.
