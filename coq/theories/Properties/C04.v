(* C04 -- redirections connect exactly the named descriptors to the named files. *)
From Coq Require Import List Arith Bool Lia.
From Cicada Require Import Base.Chars Model.Redirs Proofs.RedirsProofs.
From Cicada Require Import Model.OsLite Model.Pipeline Proofs.OsLiteProofs Proofs.PipelineProofs Proofs.ChildProofs Proofs.BuiltinProofs.
Import ListNotations.

Definition nf (_ : nat) := false.
Definition yes (_ : nat) := true.
Definition sh0 := mkp t_std [].

(* ---- parsing: every spelling of the property, attached or spaced, any file name, any arguments ---- *)
Theorem C04_parse : forall (items : list item) (last : list tok),
  Forall item_ok items -> Forall plaintok last ->
  tokens_to_redirections (render items last)
  = ROk (flat_map fst items ++ last) (map (fun it => triple (snd it)) items).
Proof. exact RedirsProofs.C04_parse. Qed.

(* `< file` / `<<< word` written with blanks; nothing around is itself an attached `<word` *)
Theorem C04_parse_from : forall op pre post s2 f,
  (op = s_lt \/ (op = s_lt3 /\ f <> s_lt)) -> no_from pre -> no_from post ->
  Forall (fun t => split_lt t = [t]) pre -> Forall (fun t => split_lt t = [t]) post ->
  split_lt (s2, f) = [(s2, f)] ->
  from_tokens (pre ++ [([], op); (s2, f)] ++ post) = set_from (Some (op, f)) (from_tokens (pre ++ post)).
Proof. exact RedirsProofs.C04_parse_from_spaced. Qed.
(* `<file` without a blank (/repo 543507e): the same as the spaced spelling *)
Theorem C04_parse_from_attached : forall pre post c r,
  c <> 60%N -> no_from pre -> no_from post ->
  Forall (fun t => split_lt t = [t]) pre -> Forall (fun t => split_lt t = [t]) post ->
  from_tokens (pre ++ [([], 60%N :: c :: r)] ++ post) = set_from (Some (s_lt, c :: r)) (from_tokens (pre ++ post)).
Proof. exact RedirsProofs.C04_parse_from_attached_now. Qed.

(* ---- application: the reference is the POSIX left-to-right fold posix_sinks ---- *)
(* what the property demands of stage idx of n: 0 is std_in (pipe / shell stdin / < file / here-string pipe),
   (1, 2) are the left-to-right fold of the redirection list over what the stage would have had *)
Definition sinks_ok (i0 o0 e0 : obj) (n : nat) (capture : bool) (idx : nat) (st : stage) (k : kid) : Prop :=
  k_out k = OExec ->
  let sk := posix_sinks (s_redirs st) (std_out o0 n capture idx, std_err e0 n capture idx) in
  lookup (tab (k_proc k)) 0 = Some (std_in i0 idx st, false) /\
  lookup (tab (k_proc k)) 1 = Some (fst sk, false) /\
  lookup (tab (k_proc k)) 2 = Some (snd sk, false).

(* the single child-side class left: a captured last stage ignores 2>&1 / 1>&2 *)
Definition Known_C04_child (capture last : bool) (st : stage) : bool := known_capdup last capture st.

(* every stage of every pipeline, every variant of the code *)
Theorem C04_sinks_variants : forall v fail_at openable pl sh i0 o0 e0,
  std_ok (tab sh) i0 o0 e0 -> runs_in_shell pl = false ->
  let r := run_pipeline v fail_at openable pl sh in
  res_error r = false ->
  kids_ok (fun idx st k =>
             Known_C04_child (p_capture pl) (idx =? length (p_stages pl) - 1) st = false ->
             sinks_ok i0 o0 e0 (length (p_stages pl)) (p_capture pl) idx st k)
          0 (p_stages pl) (res_kids r).
Proof.
  intros v fail_at openable pl sh i0 o0 e0 SO NB r NE.
  pose proof (kids_ok_bound _ _ _ _ (pipeline_kids v openable fail_at pl sh i0 o0 e0 SO NB NE)) as K.
  eapply kids_ok_impl; [|exact K]. cbn beta. intros idx st k (KS & BD) KN HE. cbn in BD.
  destruct (kid_std_fds _ _ _ _ _ _ _ _ _ _ _ KS HE) as (A & B & C).
  assert (LE : idx <= length (p_stages pl) - 1) by lia.
  assert (H : (idx =? length (p_stages pl) - 1) && p_capture pl = false \/ forallb is_file_redir (s_redirs st) = true \/ v_capfirst v = true).
  { unfold Known_C04_child, known_capdup in KN.
    destruct ((idx =? length (p_stages pl) - 1) && p_capture pl) eqn:LC; [right; left|left; reflexivity].
    try rewrite LC in KN. cbn [andb] in KN. apply no_dups_all_file. exact KN. }
  rewrite (final_sinks_posix v (p_capture pl) (length (p_stages pl) - 1) idx (s_redirs st) o0 e0 LE H) in B, C.
  replace (S (length (p_stages pl) - 1)) with (length (p_stages pl)) in B, C by lia.
  cbv zeta. auto.
Qed.

(* the code as it is (/repo 65131df: capture pipes before the redirections): NO stage class is left -- `$(prog 2>&1)`,
   `$(prog 1>&2)`, `$(prog > f 2>&1)` follow the POSIX fold over the capture pipes like any other descriptor *)
Theorem C04_sinks : forall fail_at openable pl sh i0 o0 e0,
  std_ok (tab sh) i0 o0 e0 -> runs_in_shell pl = false ->
  let r := run_pipeline v0 fail_at openable pl sh in
  res_error r = false ->
  kids_ok (fun idx st k => sinks_ok i0 o0 e0 (length (p_stages pl)) (p_capture pl) idx st k)
          0 (p_stages pl) (res_kids r).
Proof.
  intros fail_at openable pl sh i0 o0 e0 SO NB r NE.
  pose proof (kids_ok_bound _ _ _ _ (pipeline_kids v0 openable fail_at pl sh i0 o0 e0 SO NB NE)) as K.
  eapply kids_ok_impl; [|exact K]. cbn beta. intros idx st k (KS & BD) HE. cbn in BD.
  destruct (kid_std_fds _ _ _ _ _ _ _ _ _ _ _ KS HE) as (A & B & C).
  assert (LE : idx <= length (p_stages pl) - 1) by lia.
  rewrite (final_sinks_posix v0 (p_capture pl) (length (p_stages pl) - 1) idx (s_redirs st) o0 e0 LE
             (or_intror (or_intror eq_refl))) in B, C.
  replace (S (length (p_stages pl) - 1)) with (length (p_stages pl)) in B, C by lia.
  cbv zeta. auto.
Qed.
Example C04_capture_dup_witnesses :
  let ks rs := match res_kids (run_pipeline v0 nf yes (mkplan [mks FNone rs KExt []] true) sh0) with
               | [k] => map (obj_at (tab (k_proc k))) [1; 2; 3; 4; 5; 6] | _ => [] end in
  ks [mkr F2 false TAmp1] = [Some (OPipeW PCapOut); Some (OPipeW PCapOut); None; None; None; None] /\
  ks [mkr F1 false (TFile 5); mkr F2 false TAmp1] = [Some (OFile 5 MTrunc); Some (OFile 5 MTrunc); None; None; None; None] /\
  ks [mkr F1 false TAmp2] = [Some (OPipeW PCapErr); Some (OPipeW PCapErr); None; None; None; None].
Proof. vm_compute. repeat split; reflexivity. Qed.

(* a builtin that runs as a STAGE of a pipeline (in a child): its descriptors 1 and 2 are the POSIX fold like any other
   stage's; where its text goes is [builtin_child_text].  As the code is, the text of a builtin that is the LAST stage of a
   CAPTURED pipeline is lost (finding captured-builtin-last-stage); with notes/C04-fix-6.patch (bcfix) it always follows
   the fold. *)
Theorem C04_builtin_child_variants : forall bcfix fail_at openable pl sh i0 o0 e0,
  std_ok (tab sh) i0 o0 e0 -> runs_in_shell pl = false ->
  let r := run_pipeline v0 fail_at openable pl sh in
  res_error r = false ->
  kids_ok (fun idx st k =>
             s_kind st = KBuiltin -> opens_ok openable st = true ->
             let last := idx =? length (p_stages pl) - 1 in
             let sk := posix_sinks (s_redirs st) (std_out o0 (length (p_stages pl)) (p_capture pl) idx,
                                                  std_err e0 (length (p_stages pl)) (p_capture pl) idx) in
             builtin_child_text bcfix (p_capture pl) last k
             = if p_capture pl && last && negb bcfix then None else Some (Some (fst sk), Some (snd sk)))
          0 (p_stages pl) (res_kids r).
Proof.
  intros bcfix fail_at openable pl sh i0 o0 e0 SO NB r NE.
  pose proof (kids_ok_bound _ _ _ _ (pipeline_kids v0 openable fail_at pl sh i0 o0 e0 SO NB NE)) as K.
  eapply kids_ok_impl; [|exact K]. cbn beta. intros idx st k ((_ & _ & _ & _ & HB) & BD) KB OK. cbn in BD.
  destruct (HB KB OK) as (B & C).
  assert (LE : idx <= length (p_stages pl) - 1) by lia.
  rewrite (final_sinks_posix v0 (p_capture pl) (length (p_stages pl) - 1) idx (s_redirs st) o0 e0 LE
             (or_intror (or_intror eq_refl))) in B, C.
  replace (S (length (p_stages pl) - 1)) with (length (p_stages pl)) in B, C by lia.
  cbv zeta. unfold builtin_child_text.
  destruct (p_capture pl && (idx =? length (p_stages pl) - 1) && negb bcfix); [reflexivity|].
  rewrite B, C. reflexivity.
Qed.
(* the code as it is (/repo a7a8308: the builtin in a child prints with capture off): the text of EVERY builtin stage goes
   where the POSIX fold says, the last stage of a captured pipeline included *)
Theorem C04_builtin_child : forall fail_at openable pl sh i0 o0 e0,
  std_ok (tab sh) i0 o0 e0 -> runs_in_shell pl = false ->
  let r := run_pipeline v0 fail_at openable pl sh in
  res_error r = false ->
  kids_ok (fun idx st k =>
             s_kind st = KBuiltin -> opens_ok openable st = true ->
             let sk := posix_sinks (s_redirs st) (std_out o0 (length (p_stages pl)) (p_capture pl) idx,
                                                  std_err e0 (length (p_stages pl)) (p_capture pl) idx) in
             builtin_child_text true (p_capture pl) (idx =? length (p_stages pl) - 1) k = Some (Some (fst sk), Some (snd sk)))
          0 (p_stages pl) (res_kids r).
Proof.
  intros fail_at openable pl sh i0 o0 e0 SO NB r NE.
  eapply kids_ok_impl; [|apply (C04_builtin_child_variants true fail_at openable pl sh i0 o0 e0 SO NB NE)].
  cbn beta. intros idx st k H KB OK. specialize (H KB OK). cbv zeta in H. rewrite andb_false_r in H. exact H.
Qed.
(* regression: before a7a8308 (bcfix = false) the text of a captured last builtin stage was lost: `$(prog | alias 2> f)` *)
Example C04_captured_builtin_last_stage :
  let r := run_pipeline v0 nf yes (mkplan [mks FNone [] KExt []; mks FNone [mkr F2 false (TFile 5)] KBuiltin []] true) sh0 in
  map (builtin_child_text false true true) (tl (res_kids r)) = [None] /\
  map (builtin_child_text true true true) (tl (res_kids r)) = [Some (Some (OPipeW PCapOut), Some (OFile 5 MTrunc))].
Proof. vm_compute. split; reflexivity. Qed.

(* `<<<` supplies the given word followed by a newline, for EVERY word, the empty one included (`<<< ""` is one newline, never
   zero bytes); the reader of that pipe is the stage itself (C02_wiring: its descriptor 0 is the read end of ITS here-string pipe) *)
Theorem C04_herestring_payload : forall word,
  herestring_payload word = word ++ [10] /\
  length (herestring_payload word) = S (length word) /\
  herestring_payload word <> [] /\
  last (herestring_payload word) 0 = 10 /\
  herestring_payload [] = [10].
Proof.
  intro word. unfold herestring_payload. repeat split.
  - rewrite app_length. cbn. lia.
  - destruct word; discriminate.
  - apply last_last.
Qed.

(* a source or target that cannot be opened: the stage is not exec'd and exits with status 1;
   otherwise it is exec'd (external), and exactly the files a POSIX shell opens are opened *)
Theorem C04_unopenable : forall v fail_at openable pl sh i0 o0 e0,
  std_ok (tab sh) i0 o0 e0 -> runs_in_shell pl = false ->
  let r := run_pipeline v fail_at openable pl sh in
  res_error r = false ->
  kids_ok (fun idx st k =>
             (opens_ok openable st = false -> k_out k = OExit 1) /\
             (opens_ok openable st = true -> s_kind st = KExt -> k_out k = OExec))
          0 (p_stages pl) (res_kids r).
Proof.
  intros v fail_at openable pl sh i0 o0 e0 SO NB r NE.
  eapply kids_ok_impl; [|apply (pipeline_kids v openable fail_at pl sh i0 o0 e0 SO NB NE)].
  cbn beta. intros idx st k (_ & A & B & _ & _). split; [exact A|]. intros O KE. rewrite (B O), KE. reflexivity.
Qed.

(* ---- the builtin path (_get_std_fds) and the full statement ---- *)
Definition child_sinks (capture : bool) (rs : list redir) : option obj * option obj :=
  match res_kids (run_pipeline v0 nf yes (mkplan [mks FNone rs KExt []] capture) sh0) with
  | [k] => (obj_at (tab (k_proc k)) 1, obj_at (tab (k_proc k)) 2)
  | _ => (None, None)
  end.
Definition builtin_sink (rs : list redir) (is_out : bool) : option obj :=
  match res_sinks (run_pipeline v0 nf yes (mkplan [mks FNone rs KBuiltin [(is_out, false)]] false) sh0) with
  | [o] => o
  | _ => None
  end.
Definition some2 (p : obj * obj) : option obj * option obj := (Some (fst p), Some (snd p)).

Definition C04_full : Prop :=
  (forall capture rs, forallb (fun r => negb (out_of_scope r)) rs = true ->
     child_sinks capture rs = some2 (posix_sinks rs (std_out (OInh 1) 1 capture 0, std_err (OInh 2) 1 capture 0))) /\
  (forall rs, forallb (fun r => negb (out_of_scope r)) rs = true ->
     builtin_sink rs true = Some (fst (posix_sinks rs (OInh 1, OInh 2))) /\
     builtin_sink rs false = Some (snd (posix_sinks rs (OInh 1, OInh 2)))).

(* builtins that run in the shell itself (/repo c05c052: _get_std_fds is a left-to-right fold): every print lands
   where the POSIX fold of the WHOLE redirection list says -- no list excluded -- and the command fails (nothing
   printed, status 1) exactly when a file target cannot be opened *)
Theorem C04_builtin_sinks : forall fail_at openable pl sh st o1 c1 o2 c2,
  p_stages pl = [st] -> s_kind st = KBuiltin -> p_capture pl = false ->
  lookup (tab sh) 1 = Some (o1, c1) -> lookup (tab sh) 2 = Some (o2, c2) ->
  let r := run_pipeline v0 fail_at openable pl sh in
  let sk := posix_sinks (s_redirs st) (o1, o2) in
  (res_error r = false ->
   res_sinks r = map (fun b : bool * bool => Some (if fst b then fst sk else snd sk)) (s_prints st)) /\
  (res_error r = true <-> allopen openable (s_redirs st) = false).
Proof. intros. eapply (builtin_sinks_fold v0); eauto. Qed.
(* the probe step of the lone-builtin branch (core.rs, d4ac685): before the builtin runs, every file target of the list is
   opened in order with ITS OWN mode -- `>` truncating, `>>` appending -- up to and including the first that cannot be opened.
   So `builtin > a > /nonexistent/x > c` truncates a (and leaves c alone), and a builtin that prints nothing still
   creates / empties its `>` targets: "> creates or truncates ... for builtins as well", left to right. *)
Theorem C04_builtin_probe : forall openable rs p,
  ev_opens (tr (fst (builtin_preopen openable rs p))) = ev_opens (tr p) ++ fst (posix_opens openable rs) /\
  snd (builtin_preopen openable rs p) = snd (posix_opens openable rs).
Proof. exact preopen_opens. Qed.
(* the whole lone-builtin run on the two shapes: `b > f5 > (unopenable 9) > f6` and a silent `b > f5 >> f6` *)
Example C04_builtin_probe_instances :
  ev_opens (tr (res_shell (run_pipeline v0 nf (fun p => negb (Nat.eqb p 9))
     (mkplan [mks FNone [mkr F1 false (TFile 5); mkr F1 false (TFile 9); mkr F1 false (TFile 6)] KBuiltin [(true, false)]] false) sh0)))
  = [(5, MTrunc); (9, MTrunc)] /\
  ev_opens (tr (res_shell (run_pipeline v0 nf yes
     (mkplan [mks FNone [mkr F1 false (TFile 5); mkr F1 true (TFile 6)] KBuiltin []] false) sh0)))
  = [(5, MTrunc); (6, MAppend)].
Proof. vm_compute. split; reflexivity. Qed.

(* a CAPTURED builtin alone on its line that carries redirections (`x=$(alias > f)`) is, since /repo 9dba15b, a one-stage pipeline
   whose stage is a builtin in a forked child (Model runs_in_shell): C04_builtin_child / C04_sinks / C08_children, proved for every
   n, cover it with n = 1 -- its text follows the POSIX fold over the capture pipes; no class is left *)
Example C04_captured_lone_builtin :
  let text rs := map (builtin_child_text true true true)
                   (res_kids (run_pipeline v0 nf yes (mkplan [mks FNone rs KBuiltin []] true) sh0)) in
  text [mkr F1 false (TFile 5)] = [Some (Some (OFile 5 MTrunc), Some (OPipeW PCapErr))] /\
  text [mkr F2 false TAmp1; mkr F1 false (TFile 5)] = [Some (Some (OFile 5 MTrunc), Some (OPipeW PCapOut))] /\
  text [mkr F1 false TAmp2; mkr F2 false (TFile 6)] = [Some (Some (OPipeW PCapErr), Some (OFile 6 MTrunc))].
Proof. vm_compute. repeat split; reflexivity. Qed.

(* regression: the recursive look-ahead version before c05c052 *)
Definition v_before_c05c052 := mkv true true true true true false false.
Example C04_builtin_regression :
  res_sinks (run_pipeline v_before_c05c052 nf yes (mkplan [mks FNone [mkr F2 false TAmp1] KBuiltin [(false, false)]] false) sh0) = [Some (OInh 2)] /\
  res_sinks (run_pipeline v0 nf yes (mkplan [mks FNone [mkr F2 false TAmp1] KBuiltin [(false, false)]] false) sh0) = [Some (OInh 1)] /\
  res_sinks (run_pipeline v_before_c05c052 nf yes (mkplan [mks FNone [mkr F2 false (TFile 5); mkr F1 false TAmp2] KBuiltin [(true, false)]] false) sh0) = [Some (OInh 2)] /\
  res_sinks (run_pipeline v0 nf yes (mkplan [mks FNone [mkr F2 false (TFile 5); mkr F1 false TAmp2] KBuiltin [(true, false)]] false) sh0) = [Some (OFile 5 MTrunc)].
Proof. vm_compute. repeat split; reflexivity. Qed.

(* regression: before 65131df a captured last stage ignored 2>&1 *)
Definition v_before_65131df := mkv true true true true true true false.
Example C04_capture_regression :
  (match res_kids (run_pipeline v_before_65131df nf yes (mkplan [mks FNone [mkr F2 false TAmp1] KExt []] true) sh0) with
   | [k] => obj_at (tab (k_proc k)) 2 | _ => None end) = Some (OPipeW PCapErr) /\
  snd (child_sinks true [mkr F2 false TAmp1]) = Some (OPipeW PCapOut).
Proof. vm_compute. split; reflexivity. Qed.

(* ---- the full statement: both halves hold (no class left on the application side) ---- *)
Lemma allopen_yes : forall rs, allopen yes rs = true.
Proof. induction rs as [|r rest IH]; [reflexivity|]. cbn [allopen forallb]. unfold yes at 1. rewrite orb_true_r. exact IH. Qed.

Lemma single_ext_no_error : forall capture rs,
  res_error (run_pipeline v0 nf yes (mkplan [mks FNone rs KExt []] capture) sh0) = false.
Proof.
  intros capture rs. unfold run_pipeline. cbn [p_stages length mk_pipes]. cbv zeta.
  unfold mk_capture, nf. cbn [p_capture]. unfold is_single_builtin. cbn [p_stages s_kind].
  destruct capture.
  - destruct (p_pipe PCapOut sh0) as [q1 o]. destruct (p_pipe PCapErr q1) as [q2 e].
    destruct (run_stages v0 yes [] (Some o) (Some e) true 0 [mks FNone rs KExt []] q2). reflexivity.
  - destruct (run_stages v0 yes [] None None false 0 [mks FNone rs KExt []] sh0). reflexivity.
Qed.

Theorem C04_holds : C04_full.
Proof.
  split.
  - intros capture rs _. unfold child_sinks.
    set (pl := mkplan [mks FNone rs KExt []] capture).
    assert (SO : std_ok (tab sh0) (OInh 0) (OInh 1) (OInh 2)) by (repeat split).
    pose proof (single_ext_no_error capture rs) as NE. fold pl in NE.
    pose proof (pipeline_kids v0 yes nf pl sh0 _ _ _ SO eq_refl NE) as K.
    pose proof (C04_sinks nf yes pl sh0 _ _ _ SO eq_refl NE) as KS.
    subst pl. cbn [p_stages p_capture length] in K, KS.
    destruct (res_kids (run_pipeline v0 nf yes (mkplan [mks FNone rs KExt []] capture) sh0)) as [|k [|k2 kr]]; cbn [kids_ok] in K, KS;
      [cbn in K; destruct K | | destruct K as (_ & K2); cbn in K2; destruct K2].
    destruct K as ((_ & _ & KO & _ & _) & _). destruct KS as (KS & _).
    assert (HE : k_out k = OExec).
    { rewrite KO; [reflexivity|]. unfold opens_ok, from_openable. cbn [s_from s_redirs andb].
      clear. induction rs as [|r rest IH]; [reflexivity|]. cbn [posix_opens]. unfold yes at 1.
      destruct (is_file_redir r); [|exact IH]. destruct (posix_opens yes rest). exact IH. }
    destruct (KS HE) as (_ & B & C). unfold obj_at. rewrite B, C. reflexivity.
  - intros rs _.
    assert (G : forall is_out, builtin_sink rs is_out
                = Some (if is_out then fst (posix_sinks rs (OInh 1, OInh 2)) else snd (posix_sinks rs (OInh 1, OInh 2)))).
    { intro is_out. unfold builtin_sink.
      destruct (C04_builtin_sinks nf yes (mkplan [mks FNone rs KBuiltin [(is_out, false)]] false) sh0
                  (mks FNone rs KBuiltin [(is_out, false)]) (OInh 1) false (OInh 2) false eq_refl eq_refl eq_refl eq_refl eq_refl) as (S1 & S2).
      cbn [s_redirs s_prints map] in S1, S2.
      assert (NE : res_error (run_pipeline v0 nf yes (mkplan [mks FNone rs KBuiltin [(is_out, false)]] false) sh0) = false).
      { destruct (res_error (run_pipeline v0 nf yes (mkplan [mks FNone rs KBuiltin [(is_out, false)]] false) sh0)) eqn:E; [|reflexivity].
        pose proof (proj1 S2 eq_refl) as E2. rewrite allopen_yes in E2. discriminate. }
      rewrite (S1 NE). reflexivity. }
    split; [apply (G true) | apply (G false)].
Qed.
Check C04_holds : C04_full.

(* only the redirected command is affected: the shell's own table is what it was *)
Theorem C04_shell_unaffected : forall v openable pl sh,
  runs_in_shell pl = false ->
  teq_tab (res_shell (run_pipeline v nf openable pl sh)) (tab sh).
Proof.
  intros v openable pl sh NB.
  destruct (shell_restored v nf openable pl sh NB) as (A & _); [|exact A].
  unfold capture_fails, nf. rewrite Bool.andb_false_r. discriminate.
Qed.

(* non-vacuity of C04_sinks: order matters and is respected (2>&1 >f vs >f 2>&1) *)
Example C04_order_instances :
  child_sinks false [mkr F2 false TAmp1; mkr F1 false (TFile 5)] = (Some (OFile 5 MTrunc), Some (OInh 1)) /\
  child_sinks false [mkr F1 false (TFile 5); mkr F2 false TAmp1] = (Some (OFile 5 MTrunc), Some (OFile 5 MTrunc)).
Proof. vm_compute. split; reflexivity. Qed.

Print Assumptions C04_parse.
Print Assumptions C04_parse_from.
Print Assumptions C04_parse_from_attached.
Print Assumptions C04_sinks.
Print Assumptions C04_unopenable.
Print Assumptions C04_herestring_payload.
Print Assumptions C04_builtin_child.
Print Assumptions C04_builtin_sinks.
Print Assumptions C04_builtin_probe.
Print Assumptions C04_shell_unaffected.
Print Assumptions C04_holds.
