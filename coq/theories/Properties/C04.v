(* C04 -- redirections connect exactly the named descriptors to the named files. *)
From Coq Require Import List Arith Bool Lia.
From Cicada Require Import Base.Chars Model.Redirs Proofs.RedirsProofs.
From Cicada Require Import Model.OsLite Model.Pipeline Proofs.OsLiteProofs Proofs.PipelineProofs Proofs.ChildProofs Proofs.BuiltinProofs.
Import ListNotations.

Definition nf (_ : nat) := false.
Definition yes (_ : nat) := true.
Definition sh0 := mkp t_std [].

(* ---- parsing: every spelling of the property, attached or spaced, any file name, any arguments ---- *)
Theorem C04_parse : forall (items : list item) (last : list tok),
  Forall item_ok items -> Forall plaintok last ->
  tokens_to_redirections (render items last)
  = ROk (flat_map fst items ++ last) (map (fun it => triple (snd it)) items).
Proof. exact RedirsProofs.C04_parse. Qed.

(* `< file` / `<<< word` written with blanks; nothing around is itself an attached `<word` *)
Theorem C04_parse_from : forall op pre post s2 f,
  (op = s_lt \/ (op = s_lt3 /\ f <> s_lt)) -> no_from pre -> no_from post ->
  Forall (fun t => split_lt t = [t]) pre -> Forall (fun t => split_lt t = [t]) post ->
  split_lt (s2, f) = [(s2, f)] ->
  from_tokens (pre ++ [([], op); (s2, f)] ++ post) = set_from (Some (op, f)) (from_tokens (pre ++ post)).
Proof. exact RedirsProofs.C04_parse_from_spaced. Qed.
(* `<file` without a blank (/repo 543507e): the same as the spaced spelling *)
Theorem C04_parse_from_attached : forall pre post c r,
  c <> 60%N -> no_from pre -> no_from post ->
  Forall (fun t => split_lt t = [t]) pre -> Forall (fun t => split_lt t = [t]) post ->
  from_tokens (pre ++ [([], 60%N :: c :: r)] ++ post) = set_from (Some (s_lt, c :: r)) (from_tokens (pre ++ post)).
Proof. exact RedirsProofs.C04_parse_from_attached_now. Qed.

(* ---- application: the reference is the POSIX left-to-right fold posix_sinks ---- *)
(* what the property demands of stage idx of n: 0 is std_in (pipe / shell stdin / < file / here-string pipe),
   (1, 2) are the left-to-right fold of the redirection list over what the stage would have had *)
Definition sinks_ok (i0 o0 e0 : obj) (n : nat) (capture : bool) (idx : nat) (st : stage) (k : kid) : Prop :=
  k_out k = OExec ->
  let sk := posix_sinks (s_redirs st) (std_out o0 n capture idx, std_err e0 n capture idx) in
  lookup (tab (k_proc k)) 0 = Some (std_in i0 idx st, false) /\
  lookup (tab (k_proc k)) 1 = Some (fst sk, false) /\
  lookup (tab (k_proc k)) 2 = Some (snd sk, false).

(* the single child-side class left: a captured last stage ignores 2>&1 / 1>&2 *)
Definition Known_C04_child (capture last : bool) (st : stage) : bool := known_capdup last capture st.

(* every stage of every pipeline, every variant of the code *)
Theorem C04_sinks : forall v fail_at openable pl sh i0 o0 e0,
  std_ok (tab sh) i0 o0 e0 -> is_single_builtin pl = false ->
  let r := run_pipeline v fail_at openable pl sh in
  res_error r = false ->
  kids_ok (fun idx st k =>
             Known_C04_child (p_capture pl) (idx =? length (p_stages pl) - 1) st = false ->
             sinks_ok i0 o0 e0 (length (p_stages pl)) (p_capture pl) idx st k)
          0 (p_stages pl) (res_kids r).
Proof.
  intros v fail_at openable pl sh i0 o0 e0 SO NB r NE.
  pose proof (kids_ok_bound _ _ _ _ (pipeline_kids v openable fail_at pl sh i0 o0 e0 SO NB NE)) as K.
  eapply kids_ok_impl; [|exact K]. cbn beta. intros idx st k (KS & BD) KN HE. cbn in BD.
  destruct (kid_std_fds _ _ _ _ _ _ _ _ _ _ _ KS HE) as (A & B & C).
  assert (LE : idx <= length (p_stages pl) - 1) by lia.
  assert (H : (idx =? length (p_stages pl) - 1) && p_capture pl = false \/ forallb is_file_redir (s_redirs st) = true \/ v_capfirst v = true).
  { unfold Known_C04_child, known_capdup in KN.
    destruct ((idx =? length (p_stages pl) - 1) && p_capture pl) eqn:LC; [right; left|left; reflexivity].
    try rewrite LC in KN. cbn [andb] in KN. apply no_dups_all_file. exact KN. }
  rewrite (final_sinks_posix v (p_capture pl) (length (p_stages pl) - 1) idx (s_redirs st) o0 e0 LE H) in B, C.
  replace (S (length (p_stages pl) - 1)) with (length (p_stages pl)) in B, C by lia.
  cbv zeta. auto.
Qed.

(* PROPOSED notes/C04-fix-4.patch (capture pipes before the redirections): no stage class is left -- `$(prog 2>&1)`,
   `$(prog 1>&2)`, `$(prog > f 2>&1)` follow the POSIX fold over the capture pipes like any other descriptor *)
Definition v_fix4 := mkv true true true true true true true.
Theorem C04_sinks_fix4 : forall fail_at openable pl sh i0 o0 e0,
  std_ok (tab sh) i0 o0 e0 -> is_single_builtin pl = false ->
  let r := run_pipeline v_fix4 fail_at openable pl sh in
  res_error r = false ->
  kids_ok (fun idx st k => sinks_ok i0 o0 e0 (length (p_stages pl)) (p_capture pl) idx st k)
          0 (p_stages pl) (res_kids r).
Proof.
  intros fail_at openable pl sh i0 o0 e0 SO NB r NE.
  pose proof (kids_ok_bound _ _ _ _ (pipeline_kids v_fix4 openable fail_at pl sh i0 o0 e0 SO NB NE)) as K.
  eapply kids_ok_impl; [|exact K]. cbn beta. intros idx st k (KS & BD) HE. cbn in BD.
  destruct (kid_std_fds _ _ _ _ _ _ _ _ _ _ _ KS HE) as (A & B & C).
  assert (LE : idx <= length (p_stages pl) - 1) by lia.
  rewrite (final_sinks_posix v_fix4 (p_capture pl) (length (p_stages pl) - 1) idx (s_redirs st) o0 e0 LE
             (or_intror (or_intror eq_refl))) in B, C.
  replace (S (length (p_stages pl) - 1)) with (length (p_stages pl)) in B, C by lia.
  cbv zeta. auto.
Qed.
Example C04_fix4_witnesses :
  let ks rs := match res_kids (run_pipeline v_fix4 nf yes (mkplan [mks FNone rs KExt []] true) sh0) with
               | [k] => map (obj_at (tab (k_proc k))) [1; 2; 3; 4; 5; 6] | _ => [] end in
  ks [mkr F2 false TAmp1] = [Some (OPipeW PCapOut); Some (OPipeW PCapOut); None; None; None; None] /\
  ks [mkr F1 false (TFile 5); mkr F2 false TAmp1] = [Some (OFile 5 MTrunc); Some (OFile 5 MTrunc); None; None; None; None] /\
  ks [mkr F1 false TAmp2] = [Some (OPipeW PCapErr); Some (OPipeW PCapErr); None; None; None; None].
Proof. vm_compute. repeat split; reflexivity. Qed.

(* a source or target that cannot be opened: the stage is not exec'd and exits with status 1;
   otherwise it is exec'd (external), and exactly the files a POSIX shell opens are opened *)
Theorem C04_unopenable : forall v fail_at openable pl sh i0 o0 e0,
  std_ok (tab sh) i0 o0 e0 -> is_single_builtin pl = false ->
  let r := run_pipeline v fail_at openable pl sh in
  res_error r = false ->
  kids_ok (fun idx st k =>
             (opens_ok openable st = false -> k_out k = OExit 1) /\
             (opens_ok openable st = true -> s_kind st = KExt -> k_out k = OExec))
          0 (p_stages pl) (res_kids r).
Proof.
  intros v fail_at openable pl sh i0 o0 e0 SO NB r NE.
  eapply kids_ok_impl; [|apply (pipeline_kids v openable fail_at pl sh i0 o0 e0 SO NB NE)].
  cbn beta. intros idx st k (_ & A & B & _). split; [exact A|]. intros O KE. rewrite (B O), KE. reflexivity.
Qed.

(* ---- the builtin path (_get_std_fds) and the full statement ---- *)
Definition child_sinks (capture : bool) (rs : list redir) : option obj * option obj :=
  match res_kids (run_pipeline v0 nf yes (mkplan [mks FNone rs KExt []] capture) sh0) with
  | [k] => (obj_at (tab (k_proc k)) 1, obj_at (tab (k_proc k)) 2)
  | _ => (None, None)
  end.
Definition builtin_sink (rs : list redir) (is_out : bool) : option obj :=
  match res_sinks (run_pipeline v0 nf yes (mkplan [mks FNone rs KBuiltin [is_out]] false) sh0) with
  | [o] => o
  | _ => None
  end.
Definition some2 (p : obj * obj) : option obj * option obj := (Some (fst p), Some (snd p)).

Definition C04_full : Prop :=
  (forall capture rs, forallb (fun r => negb (out_of_scope r)) rs = true ->
     child_sinks capture rs = some2 (posix_sinks rs (std_out (OInh 1) 1 capture 0, std_err (OInh 2) 1 capture 0))) /\
  (forall rs, forallb (fun r => negb (out_of_scope r)) rs = true ->
     builtin_sink rs true = Some (fst (posix_sinks rs (OInh 1, OInh 2))) /\
     builtin_sink rs false = Some (snd (posix_sinks rs (OInh 1, OInh 2)))).

(* $(prog 2>&1) : the duplication is ignored when the output is captured *)
Example C04_refuted_capture_dup :
  snd (child_sinks true [mkr F2 false TAmp1]) = Some (OPipeW PCapErr) /\
  snd (posix_sinks [mkr F2 false TAmp1] (std_out (OInh 1) 1 true 0, std_err (OInh 2) 1 true 0)) = OPipeW PCapOut.
Proof. vm_compute. split; reflexivity. Qed.

Theorem C04_refuted : ~ C04_full.
Proof.
  intros (H & _). specialize (H true [mkr F2 false TAmp1] eq_refl).
  vm_compute in H. discriminate.
Qed.

(* builtins that run in the shell itself (/repo c05c052: _get_std_fds is a left-to-right fold): every print lands
   where the POSIX fold of the WHOLE redirection list says -- no list excluded -- and the command fails (nothing
   printed, status 1) exactly when a file target cannot be opened *)
Theorem C04_builtin_sinks : forall fail_at openable pl sh st o1 c1 o2 c2,
  p_stages pl = [st] -> s_kind st = KBuiltin -> p_capture pl = false ->
  lookup (tab sh) 1 = Some (o1, c1) -> lookup (tab sh) 2 = Some (o2, c2) ->
  let r := run_pipeline v0 fail_at openable pl sh in
  let sk := posix_sinks (s_redirs st) (o1, o2) in
  (res_error r = false ->
   res_sinks r = map (fun is_out : bool => Some (if is_out then fst sk else snd sk)) (s_prints st)) /\
  (res_error r = true <-> allopen openable (s_redirs st) = false).
Proof. intros. eapply (builtin_sinks_fold v0); eauto. Qed.
(* regression: the recursive look-ahead version before c05c052 *)
Definition v_before_c05c052 := mkv true true true true true false false.
Example C04_builtin_regression :
  res_sinks (run_pipeline v_before_c05c052 nf yes (mkplan [mks FNone [mkr F2 false TAmp1] KBuiltin [false]] false) sh0) = [Some (OInh 2)] /\
  res_sinks (run_pipeline v0 nf yes (mkplan [mks FNone [mkr F2 false TAmp1] KBuiltin [false]] false) sh0) = [Some (OInh 1)] /\
  res_sinks (run_pipeline v_before_c05c052 nf yes (mkplan [mks FNone [mkr F2 false (TFile 5); mkr F1 false TAmp2] KBuiltin [true]] false) sh0) = [Some (OInh 2)] /\
  res_sinks (run_pipeline v0 nf yes (mkplan [mks FNone [mkr F2 false (TFile 5); mkr F1 false TAmp2] KBuiltin [true]] false) sh0) = [Some (OFile 5 MTrunc)].
Proof. vm_compute. repeat split; reflexivity. Qed.

(* only the redirected command is affected: the shell's own table is what it was *)
Theorem C04_shell_unaffected : forall v openable pl sh,
  is_single_builtin pl = false ->
  teq_tab (res_shell (run_pipeline v nf openable pl sh)) (tab sh).
Proof.
  intros v openable pl sh NB.
  destruct (shell_restored v nf openable pl sh NB) as (A & _); [|exact A].
  unfold capture_fails, nf. rewrite Bool.andb_false_r. discriminate.
Qed.

(* non-vacuity of C04_sinks: order matters and is respected (2>&1 >f vs >f 2>&1) *)
Example C04_order_instances :
  child_sinks false [mkr F2 false TAmp1; mkr F1 false (TFile 5)] = (Some (OFile 5 MTrunc), Some (OInh 1)) /\
  child_sinks false [mkr F1 false (TFile 5); mkr F2 false TAmp1] = (Some (OFile 5 MTrunc), Some (OFile 5 MTrunc)).
Proof. vm_compute. split; reflexivity. Qed.

Print Assumptions C04_parse.
Print Assumptions C04_parse_from.
Print Assumptions C04_parse_from_attached.
Print Assumptions C04_sinks.
Print Assumptions C04_unopenable.
Print Assumptions C04_sinks_fix4.
Print Assumptions C04_builtin_sinks.
Print Assumptions C04_shell_unaffected.
Print Assumptions C04_refuted.
