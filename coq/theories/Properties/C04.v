(* C04 -- redirections connect exactly the named descriptors to the named files. *)
From Coq Require Import List Arith Bool.
From Cicada Require Import Base.Chars Model.Redirs Proofs.RedirsProofs.
From Cicada Require Import Model.OsLite Model.Pipeline Proofs.OsLiteProofs Proofs.PipelineProofs.
Import ListNotations.

Definition nf (_ : nat) := false.
Definition yes (_ : nat) := true.
Definition sh0 := mkp t_std [].
Definition obj_at (t : table) (fd : nat) : option obj := option_map fst (lookup t fd).

(* ---- parsing: every spelling of the property, attached or spaced, any file name, any arguments ---- *)
Theorem C04_parse : forall (items : list item) (last : list tok),
  Forall item_ok items -> Forall plaintok last ->
  tokens_to_redirections (render items last)
  = ROk (flat_map fst items ++ last) (map (fun it => triple (snd it)) items).
Proof. exact RedirsProofs.C04_parse. Qed.

Theorem C04_parse_from : forall op pre post s2 f,
  (op = s_lt \/ (op = s_lt3 /\ f <> s_lt)) -> no_from pre -> no_from post ->
  from_tokens (pre ++ [([], op); (s2, f)] ++ post) = set_from (Some (op, f)) (from_tokens (pre ++ post)).
Proof. exact RedirsProofs.C04_parse_from. Qed.

(* ---- application: the reference is the POSIX left-to-right fold posix_sinks ---- *)
(* the sinks a single external command ends up with, in the model of the code *)
Definition child_sinks (capture : bool) (rs : list redir) : option obj * option obj :=
  match res_kids (run_pipeline false nf yes (mkplan [mks FNone rs KExt []] capture) sh0) with
  | [k] => (obj_at (tab (k_proc k)) 1, obj_at (tab (k_proc k)) 2)
  | _ => (None, None)
  end.
Definition builtin_sink (rs : list redir) (is_out : bool) : option obj :=
  match res_sinks (run_pipeline false nf yes (mkplan [mks FNone rs KBuiltin [is_out]] false) sh0) with
  | [o] => o
  | _ => None
  end.
Definition some2 (p : obj * obj) : option obj * option obj := (Some (fst p), Some (snd p)).

Definition C04_full : Prop :=
  (forall rs, forallb (fun r => negb (out_of_scope r)) rs = true ->
     child_sinks false rs = some2 (posix_sinks rs (OInh 1, OInh 2))) /\
  (forall rs, forallb (fun r => negb (out_of_scope r)) rs = true ->
     builtin_sink rs true = Some (fst (posix_sinks rs (OInh 1, OInh 2))) /\
     builtin_sink rs false = Some (snd (posix_sinks rs (OInh 1, OInh 2)))).

(* cd /nonexistent 2>&1 : the builtin's message stays on descriptor 2 *)
Example C04_refuted_builtin_dup :
  builtin_sink [mkr F2 false TAmp1] false = Some (OInh 2) /\
  snd (posix_sinks [mkr F2 false TAmp1] (OInh 1, OInh 2)) = OInh 1.
Proof. vm_compute. split; reflexivity. Qed.
(* alias 2> f 1>&2 : POSIX sends stdout to f, the builtin path to the terminal's stderr *)
Example C04_refuted_builtin_order :
  builtin_sink [mkr F2 false (TFile 5); mkr F1 false TAmp2] true = Some (OInh 2) /\
  fst (posix_sinks [mkr F2 false (TFile 5); mkr F1 false TAmp2] (OInh 1, OInh 2)) = OFile 5 MTrunc.
Proof. vm_compute. split; reflexivity. Qed.
(* $(prog 2>&1) : the duplication is ignored when the output is captured *)
Example C04_refuted_capture_dup :
  snd (child_sinks true [mkr F2 false TAmp1]) = Some (OPipeW PCapErr).
Proof. vm_compute. reflexivity. Qed.

Theorem C04_refuted : ~ C04_full.
Proof.
  intros (_ & H). specialize (H [mkr F2 false TAmp1] eq_refl). destruct H as (_ & H).
  vm_compute in H. discriminate.
Qed.

(* what the external-command path does right (instances; the general statement is checked against
   the real binary by layer L2, see notes/C04.md): order matters and is respected *)
Example C04_order_instances :
  child_sinks false [mkr F2 false TAmp1; mkr F1 false (TFile 5)] = some2 (posix_sinks [mkr F2 false TAmp1; mkr F1 false (TFile 5)] (OInh 1, OInh 2)) /\
  child_sinks false [mkr F1 false (TFile 5); mkr F2 false TAmp1] = some2 (posix_sinks [mkr F1 false (TFile 5); mkr F2 false TAmp1] (OInh 1, OInh 2)) /\
  child_sinks false [mkr F1 true (TFile 5); mkr F2 true (TFile 6); mkr F1 false TAmp2] = some2 (posix_sinks [mkr F1 true (TFile 5); mkr F2 true (TFile 6); mkr F1 false TAmp2] (OInh 1, OInh 2)).
Proof. vm_compute. repeat split; reflexivity. Qed.

(* only the redirected command is affected: the shell's own table is what it was, for every pipeline,
   every redirection list, every unopenable target *)
Theorem C04_shell_unaffected : forall fixed openable pl sh,
  is_single_builtin pl = false ->
  teq_tab (res_shell (run_pipeline fixed nf openable pl sh)) (tab sh).
Proof.
  intros fixed openable pl sh NB.
  destruct (shell_restored fixed nf openable pl sh NB) as (A & _); [|exact A].
  unfold capture_fails, nf. rewrite Bool.andb_false_r. discriminate.
Qed.

Print Assumptions C04_parse.
Print Assumptions C04_parse_from.
Print Assumptions C04_shell_unaffected.
Print Assumptions C04_refuted.
