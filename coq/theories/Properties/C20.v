(** C20 -- placeholder while the machinery is brought up. *)
From Cicada Require Import Base.Chars Base.Tag Model.Complete.
Theorem C20_escape_app : forall a b, escape_path (a ++ b) = escape_path a ++ escape_path b.
Proof. intros. unfold escape_path. now rewrite flat_map_app. Qed.
Print Assumptions C20_escape_app.
