(** C20 -- what TAB inserts for a file name is read back as exactly that file.
    Statements only; proofs in Proofs/{TokenizerEscProofs,CompleteProofs}.v.

    [completed_line q cmd name d] is the line after TAB substituted the single
    candidate the model's complete_path offers for the entry [name] of the
    current directory ([d] = it is a directory) in quoting context [q]
    (unquoted: escape_path; inside an open single / double quote:
    wrap_sep_string), followed by the blank (file) or slash (directory) lineread
    appends and, for a directory inside a quote, the closing quote.
    [run_line expand] is what Enter does: line_to_cmds, parse_line, the
    expansion passes, the planner; [Some argv] iff one foreground command
    without redirection. The expansion passes are a parameter constrained by
    their own entry guards ([honours_guards]: a token meeting [literal_token]
    is left alone).

    Status: the full statement is FALSE of the code ([C20_refuted], and
    [C20_refuted_expanded] for the classes that need an expansion pass to
    show); it is proved for every name outside [Known_C20] ([C20_partial]),
    including names that end in white space (repaired by 675add7, regression
    [C20_trailing_blank_regression]) and names holding a double quote completed
    inside double quotes (written there as backslash + quote). *)
From Cicada Require Import Base.Chars Base.Tag Gen.EscapeClass Model.Tokenizer Model.Redirect Model.Cmds Model.Complete
  Proofs.TokenizerProofs Proofs.TokenizerEscProofs Proofs.CompleteProofs Proofs.WordStartProofs Proofs.CandidatesProofs Proofs.DispatchProofs.
From Coq Require Import Sorting.Permutation.
Local Open Scope N_scope.

Definition C20_full : Prop :=
  forall expand, honours_guards expand ->
  forall q cmd name d, cmd_word cmd = true -> valid_filename name = true ->
    run_line expand (completed_line q cmd name d) = Some [cmd; arg_of name d].

(** refuted already with expansion passes that do nothing: the file  &  completed unquoted *)
Theorem C20_refuted : ~ C20_full.
Proof.
  intros H. specialize (H (fun x => x) (fun _ _ _ _ => eq_refl) Unq [104; 112] [38] false eq_refl eq_refl).
  vm_compute in H. discriminate H.
Qed.

(** one witness per class of known_findings.txt that shows without any expansion:
    & unquoted, it's inside single quotes, a\ inside double quotes *)
Theorem C20_refuted_witnesses :
  run_line (fun x => x) (completed_line Unq [104;112] [38] false) = None /\
  run_line (fun x => x) (completed_line InSq [104;112] [105;116;39;115] false) = Some [[104;112]; [105;116;92;115]] /\
  run_line (fun x => x) (completed_line InDq [104;112] [97;92] false) = Some [[104;112]; [97;34]].
Proof. repeat split; vm_compute; reflexivity. Qed.

(** regression for the repaired class unq-trailing-blank (675add7): files named
    x<blank>, x<TAB>, x<NBSP>, <blank><blank> completed unquoted are read back *)
Example C20_trailing_blank_regression :
  run_line (fun x => x) (completed_line Unq [104;112] [120;32] false) = Some [[104;112]; [120;32]] /\
  run_line (fun x => x) (completed_line Unq [104;112] [120;9] false) = Some [[104;112]; [120;9]] /\
  run_line (fun x => x) (completed_line Unq [104;112] [120;160] false) = Some [[104;112]; [120;160]] /\
  run_line (fun x => x) (completed_line Unq [104;112] [32;32] false) = Some [[104;112]; [32;32]] /\
  Known_C20 Unq [120;32] false = false.
Proof. repeat split; vm_compute; reflexivity. Qed.

(** expand_home of shell.rs on its own (an untagged token with a leading tilde gets
    the home directory in its place) honours the guards, and the file  ~x  completed
    unquoted is then received as  <home>x : the inserted text carries no protection *)
Definition expand_home_only (home : str) (toks : list token) : list token :=
  map (fun t => if tag_eqb (fst t) TNone && starts_with_c c_tilde (snd t) then (fst t, home ++ tl (snd t)) else t) toks.

Theorem C20_refuted_expanded :
  (forall home, honours_guards (expand_home_only home)) /\
  run_line (expand_home_only [47;104]) (completed_line Unq [104;112] [126;120] false) = Some [[104;112]; [47;104;120]] /\
  (* the tokens of  hp \$x  and  hp a\*  carry no trace of the escaping *)
  parse_line [104;112;32;97;92;36;120] = [(TNone, [104;112]); (TNone, [97;36;120])] /\
  parse_line [104;112;32;97;92;42] = [(TNone, [104;112]); (TNone, [97;42])].
Proof.
  split; [|repeat split; vm_compute; reflexivity].
  intros home cmd t Hc Hl. unfold expand_home_only. cbn [map fst snd tag_eqb andb].
  destruct (cmd_word_facts _ Hc) as (_ & _ & _ & _ & _ & _ & Hlc).
  assert (E1 : starts_with_c c_tilde cmd = false).
  { cbn [literal_token] in Hlc. repeat (apply andb_true_iff in Hlc as [Hlc ?]).
    match goal with H : negb _ = true |- _ => now apply negb_true_iff in H end. }
  rewrite E1. destruct t as [tg w]. cbn [fst snd]. destruct tg; cbn [tag_eqb andb]; try reflexivity.
  cbn [literal_token] in Hl. repeat (apply andb_true_iff in Hl as [Hl ?]).
  match goal with H : negb (starts_with_c c_tilde w) = true |- _ => apply negb_true_iff in H; rewrite H end. reflexivity.
Qed.

(** the round trip for every name outside the known classes, any command word, any
    expansion passes honouring their guards, files and directories, three contexts *)
Theorem C20_partial : forall expand q cmd name d,
  honours_guards expand -> cmd_word cmd = true -> valid_filename name = true ->
  Known_C20 q name d = false ->
  run_line expand (completed_line q cmd name d) = Some [cmd; arg_of name d].
Proof. exact round_trip_partial. Qed.

(** the tokenizer on the escaped style, standalone: for ANY class that covers the
    tokenizer's special characters and any non-empty text *)
Theorem C20_parse_escaped : forall (cls : char -> bool),
  (forall c, cls c = false -> classify c = KOther) ->
  forall cmd name n, plain_word cmd = true -> forallb arith_body cmd = false -> name <> [] ->
  parse_line (cmd ++ c_space :: escape_text cls name ++ spaces n) = [(TNone, cmd); (text_tag cls name, name)].
Proof. exact parse_line_escaped. Qed.

(** ... and escape_path's class (generated from the source) is such a class *)
(** a double quote written as backslash + quote inside a double-quoted word *)
Theorem C20_parse_dq_escaped : forall cmd t,
  plain_word cmd = true -> forallb arith_body cmd = false -> has_cls KBs t = false ->
  parse_line (cmd ++ c_space :: c_dq :: dq_esc t ++ [c_dq]) = [(TNone, cmd); (TDq, t)].
Proof. exact parse_line_dq_escaped. Qed.

Theorem C20_escape_class_covers : forall c, in_escape_class c = false -> classify c = KOther.
Proof. exact escape_class_covers. Qed.

(** escaped_word_start never points inside a character: lineread's slice of the
    buffer at word_start cannot panic, for any line (any multi-byte characters) *)
Theorem C20_word_start_boundary : forall line,
  exists pre word, line = pre ++ word /\ split_bytes (escaped_word_start line) line = Some (pre, word).
Proof. exact word_start_boundary. Qed.

(** the candidates for a word whose last token is a plain prefix (no directory part, no
    bar, no home / environment form): exactly the entries of the current directory
    that start with it (directories only for cd -- a symbolic link to a directory IS one, [entry_is_dir] goes
    through the link as Path::is_dir does), rendered by comp_of, sorted *)
Theorem C20_candidates : forall fs getenv word for_dir sep pfx entries,
  last_token (parse_line word) = (sep, pfx) ->
  has_char c_slash pfx = false -> has_char c_pipe pfx = false ->
  needs_expand_home pfx = false -> starts_with_c c_dollar pfx = false ->
  fs [c_dot] = Some entries ->
  exists l, complete_path fs getenv word for_dir = COk l /\
    sorted_comps l = true /\
    Permutation l (map (fun e => comp_of [] sep (is_env_prefix word) (fst e, entry_is_dir e))
                       (filter (fun e => (negb for_dir || entry_is_dir e) && starts_with (fst e) pfx) entries)).
Proof. exact candidates_exact. Qed.

(** a symbolic link to a directory (or any entry that is a directory through the link) with
    the typed prefix is among the candidates, also for cd, with the directory suffix *)
Theorem C20_link_dir_offered : forall fs getenv word for_dir sep pfx entries e,
  last_token (parse_line word) = (sep, pfx) ->
  has_char c_slash pfx = false -> has_char c_pipe pfx = false ->
  needs_expand_home pfx = false -> starts_with_c c_dollar pfx = false ->
  fs [c_dot] = Some entries ->
  In e entries -> entry_is_dir e = true -> starts_with (fst e) pfx = true ->
  exists l c, complete_path fs getenv word for_dir = COk l /\ In c l /\ cp_dir c = true /\
              c = comp_of [] sep (is_env_prefix word) (fst e, true).
Proof. exact dir_entry_offered. Qed.

(** directories only after cd. The completer cascade of CicadaCompleter::complete is in the
    model with its regexes GENERATED from src/completers/mod.rs. A line made of blanks, cd, one
    or more blanks and then ANYTHING -- in particular one word whose blanks are escaped or sit
    inside an open quote, which is one word for escaped_word_start -- is handled by the cd
    completer unless a completer tested before it (dots, ssh, make, bin, env) claims the line,
    and every candidate TAB then offers is a directory (through symbolic links). *)
Theorem C20_cd_context : forall fs getenv dots n m rest,
  let line := spaces n ++ [99; 100] ++ c_space :: spaces m ++ rest in
  dots line = false -> for_ssh line = false -> for_make line = false -> for_bin line = false -> for_env line = false ->
  dispatch (dots line) line = DCd /\ all_dirs (tab_line fs getenv dots line).
Proof. exact cd_context. Qed.

(** the regex of for_cd (generated) is a prefix test: whatever follows cd and a blank *)
Theorem C20_for_cd_prefix : forall n m rest,
  for_cd (spaces n ++ [99; 100] ++ c_space :: spaces m ++ rest) = true.
Proof. exact for_cd_prefix. Qed.

Check C20_partial : forall expand q cmd name d,
  honours_guards expand -> cmd_word cmd = true -> valid_filename name = true ->
  Known_C20 q name d = false ->
  run_line expand (completed_line q cmd name d) = Some [cmd; arg_of name d].

(** Non-vacuity: the file  a b#c|d  (blank, hash, bar) in the three contexts, and a directory *)
Example C20_nonvacuous :
  let cmd := [104;112] in let name := [97;32;98;35;99;124;100] in let qn := [113;34;114;32] in
  cmd_word cmd = true /\ valid_filename name = true /\
  Known_C20 Unq name false = false /\ Known_C20 InSq name true = false /\ Known_C20 InDq name false = false /\
  Known_C20 InDq qn false = false /\ run_line (fun x => x) (completed_line InDq cmd qn false) = Some [cmd; qn] /\
  run_line (fun x => x) (completed_line Unq cmd name false) = Some [cmd; name] /\
  completed_line InSq cmd name true = [104;112;32;39;97;32;98;35;99;124;100;47;39].
Proof. vm_compute. repeat split. Qed.

Print Assumptions C20_refuted.
Print Assumptions C20_refuted_witnesses.
Print Assumptions C20_refuted_expanded.
Print Assumptions C20_partial.
Print Assumptions C20_parse_escaped.
Print Assumptions C20_escape_class_covers.
Print Assumptions C20_word_start_boundary.
Print Assumptions C20_candidates.
Print Assumptions C20_parse_dq_escaped.
Print Assumptions C20_trailing_blank_regression.
Print Assumptions C20_link_dir_offered.
Print Assumptions C20_cd_context.
Print Assumptions C20_for_cd_prefix.
