(** C12 -- brace, range, tilde and filename expansion yield exactly the specified words.
    Statements only; proofs are in Proofs/. *)
From Coq Require Import List NArith ZArith.
From Cicada Require Import Base.Chars Base.Tag Base.Regex Gen.ShellRegexes Model.Expand Model.ExpandRef
  Proofs.ExpandBasics Proofs.BraceProofs Proofs.BraceWitness Proofs.RangeGlobProofs Proofs.PassOrder.
From Cicada Require Model.Tokenizer.
Import ListNotations.
Local Open Scope N_scope.

(** Braces: for every well-formed term (nesting and number of groups unbounded, empty
    alternatives allowed) the recursive-descent expander returns the left-to-right
    cartesian product, with the fuel the model computes from the length. *)
Theorem C12_brace : forall t, wf_term t = true -> brace_getitem (render_term t) 0 = Ok (den_term t, []).
Proof. exact brace_getitem_den. Qed.

(** Order: a pass (brace, range or glob) that does not take its early return rewrites each
    selected token in place; the other tokens and the relative order of all are untouched. *)
Theorem C12_order : forall (sel : token -> res selr) toks,
  (forall t, In t toks -> exists d, sel t = Ok d /\ d <> Abort) ->
  run_pass sel toks = Ok (flat_map (sel_tokens sel) toks).
Proof. exact pass_is_flat_map. Qed.
Theorem C12_order_brace : forall toks,
  (forall t, In t toks -> exists r, brace_getitem (snd t) 0 = Ok r) ->
  expand_brace toks = Ok (flat_map (sel_tokens brace_sel) toks).
Proof. exact expand_brace_in_place. Qed.

(** Braces, including groups with a single alternative (they keep their braces, as in bash). *)
Theorem C12_brace_any_group : forall t, wf_term1 t = true -> brace_getitem (render_term t) 0 = Ok (den_term1 t, []).
Proof. exact brace_getitem_den1. Qed.

(** Ranges: for ALL i32 operands and every step the loop returns the inclusive arithmetic sequence
    from a toward b with step max 1 s (it stops at the last value not beyond b, also next to the i32
    limits); it cannot panic or diverge, and the sequence is never empty. *)
Theorem C12_range : forall a b s,
  (i32_min <= a <= i32_max)%Z -> (i32_min <= b <= i32_max)%Z ->
  range_list a b (Z.max 1 s) = Ok (map z_to_dec (range_ref a b s)).
Proof. exact range_list_ref. Qed.
Theorem C12_range_total : forall a b s,
  (i32_min <= a <= i32_max)%Z -> (i32_min <= b <= i32_max)%Z ->
  exists l, range_list a b (Z.max 1 s) = Ok l /\ l <> [].
Proof. exact range_list_total. Qed.

(** Tilde: an unquoted token starting with ~ gets the home directory in its place -- for EVERY home
    directory (since 1c7eddf it is text: dollars in it stay) and every rest; quoted tokens and other
    tokens are unchanged. *)
Theorem C12_home : forall W rest, expand_home_tok W (TNone, 126 :: rest) = (TNone, home W ++ rest).
Proof. exact expand_home_spec. Qed.
(** expand_home is the index-buffer transcription too, proved to be the per-token map. *)
Theorem C12_order_home : forall W toks, expand_home W toks = map (expand_home_tok W) toks.
Proof. exact expand_home_map. Qed.
Theorem C12_home_other : forall W tg s, tg <> TNone \/ strip_prefix [126] s = None ->
  expand_home_tok W (tg, s) = (tg, s).
Proof. exact expand_home_other. Qed.

(** Glob: the oracle's list (the glob crate: sorted matches) minus hidden names, in the oracle's
    order, or the pattern itself; names with a blank stay one token; other tokens untouched. *)
Theorem C12_glob : forall W item paths,
  contains_char 42 item = true -> starts_with [39] (trim item) = false -> starts_with [34] (trim item) = false ->
  needs_globbing item = true -> glob W item = Some paths ->
  sel_tokens (glob_sel W) (TNone, item) =
  map retag (let r := filter (glob_keep item (starts_with [46; 42] (basename item))) paths in
             if is_empty r then [item] else r).
Proof. exact glob_token_spec. Qed.
Theorem C12_glob_order : forall W toks, (forall t, In t toks -> glob W (snd t) <> None) ->
  expand_glob W toks = Ok (flat_map (sel_tokens (glob_sel W)) toks).
Proof. exact expand_glob_in_place. Qed.

(** Ranges keep the text around the braces (f69a693): for the LEFTMOST match of the range pattern in the token, whose
    context is the token's own text, every element is pre ++ number ++ post. *)
Theorem C12_range_affixes : forall t pre g1 g2 g4 post a b s,
  tag_is_empty (fst t) = true -> rx_search rx_brace_range (snd t) = true ->
  find_range (snd t) = Some (pre, (g1, g2, g4), post) ->
  parse_i32 g1 = Some a -> parse_i32 g2 = Some b -> (match g4 with None => Some 1%Z | Some d => parse_i32 d end) = Some s ->
  range_sel t = Ok (Repl (map (fun z => retag (pre ++ z_to_dec z ++ post)) (range_ref a b s))).
Proof. exact range_sel_affixes. Qed.
Theorem C12_range_context : forall s pre caps post,
  find_range s = Some (pre, caps, post) -> exists mid, s = pre ++ 123 :: mid ++ 125 :: post.
Proof. exact find_range_ctx_text. Qed.
(** The range pass never takes an early return (9bedc7c: an operand that does not parse skips that token): it is a
    flat_map whenever every token's decision is defined. *)
Theorem C12_order_range : forall toks, (forall t, In t toks -> exists d, range_sel t = Ok d) ->
  expand_brace_range toks = Ok (flat_map (sel_tokens range_sel) toks).
Proof. exact expand_brace_range_in_place. Qed.
(** Hidden directories (7572cd1): a kept path has no directory component with a leading dot unless the pattern component
    at the same distance from the end has one too; the rule for the last component is unchanged. *)
Theorem C12_glob_hidden_dir : forall pattern show p, glob_keep pattern show p = true ->
  glob_keep_last show p = true /\
  forall k comp, nth_error (dirs_rev p) k = Some comp -> starts_with [46] comp = true -> comp <> [46] -> comp <> [46; 46] ->
  starts_with [46] (nth k (dirs_rev pattern) []) = true.
Proof. intros pattern show p H. split; [exact (glob_keep_weaker pattern show p H) | exact (glob_keep_no_hidden_dir pattern show p H)]. Qed.

(** Regression examples for the repaired defects. *)
Example C12_range_keeps_affixes :
  expand_brace_range [(TNone, [101; 99; 104; 111]); (TNone, [97; 123; 49; 46; 46; 51; 125; 98])]
  = Ok [(TNone, [101; 99; 104; 111]); (TNone, [97; 49; 98]); (TNone, [97; 50; 98]); (TNone, [97; 51; 98])].
Proof. exact range_keeps_affixes. Qed.

Example C12_range_at_limit :
  expand_brace_range [(TNone, [123; 50; 49; 52; 55; 52; 56; 51; 54; 52; 54; 46; 46; 50; 49; 52; 55; 52; 56; 51; 54; 52; 55; 125])]
  = Ok [(TNone, [50; 49; 52; 55; 52; 56; 51; 54; 52; 54]); (TNone, [50; 49; 52; 55; 52; 56; 51; 54; 52; 55])].
Proof. exact range_at_i32_max. Qed.
Example C12_home_with_dollar :
  expand_home_tok (mkWorld (fun _ => None) (fun _ => None) 0%Z 1%Z [47; 104; 36; 116; 97; 105; 108] (fun _ => None)
                           (fun _ => None) (fun _ => None)) (TNone, [126; 47; 120])
  = (TNone, [47; 104; 36; 116; 97; 105; 108; 47; 120]).
Proof. exact home_with_dollar. Qed.
Example C12_single_alternative :
  brace_getitem [123; 97; 125; 123; 98; 44; 99; 125] 0 = Ok ([[123; 97; 125; 98]; [123; 97; 125; 99]], []).
Proof. exact single_alternative_group. Qed.

(** Pass order (part of the transcription of do_expansion): braces are expanded BEFORE file names.  Computed on the
    composed model with the real tokenizer, against a directory oracle holding a1, b1 and a file named x{1,2}.log:
    one word with a comma group and a star is split first and each part is globbed; a matched file NAME that holds a
    brace group stays as it is. *)
Example C12_pass_order_brace_glob :
  do_expansion Tokenizer.parse_line W_dir 4 [(TNone, [101; 99; 104; 111]); (TNone, [123; 97; 44; 98; 125; 42])]
  = Ok [(TNone, [101; 99; 104; 111]); (TNone, [97; 49]); (TNone, [98; 49])] /\
  do_expansion Tokenizer.parse_line W_dir 4 [(TNone, [101; 99; 104; 111]); (TNone, [120; 42; 46; 108; 111; 103])]
  = Ok [(TNone, [101; 99; 104; 111]); (TNone, [120; 123; 49; 44; 50; 125; 46; 108; 111; 103])].
Proof. split; [exact brace_then_glob | exact glob_result_not_braced]. Qed.

Check C12_brace : forall t, wf_term t = true -> brace_getitem (render_term t) 0 = Ok (den_term t, []).
Check C12_order : forall (sel : token -> res selr) toks,
  (forall t, In t toks -> exists d, sel t = Ok d /\ d <> Abort) ->
  run_pass sel toks = Ok (flat_map (sel_tokens sel) toks).
Check C12_range : forall a b s,
  (i32_min <= a <= i32_max)%Z -> (i32_min <= b <= i32_max)%Z ->
  range_list a b (Z.max 1 s) = Ok (map z_to_dec (range_ref a b s)).

(** Non-vacuity: the term  a{b,{c,}d}{,e}  is well formed and expands to six words in product order;
    {10..3..2} is the descending sequence 10 8 6 4. *)
Definition ex_term :=
  TChr 97 (TGrp (ACons (TChr 98 TEnd) (AOne (TGrp (ACons (TChr 99 TEnd) (AOne TEnd)) (TChr 100 TEnd))))
                (TGrp (ACons TEnd (AOne (TChr 101 TEnd))) TEnd)).
Example C12_nonvacuous :
  wf_term ex_term = true /\
  render_term ex_term = [97; 123; 98; 44; 123; 99; 44; 125; 100; 125; 123; 44; 101; 125] /\
  brace_getitem (render_term ex_term) 0
  = Ok ([[97; 98]; [97; 98; 101]; [97; 99; 100]; [97; 99; 100; 101]; [97; 100]; [97; 100; 101]], []) /\
  range_list 10 3 (Z.max 1 2) = Ok [[49; 48]; [56]; [54]; [52]] /\ range_ref 10 3 2 = [10; 8; 6; 4]%Z.
Proof. vm_compute. repeat split. Qed.

Print Assumptions C12_brace.
Print Assumptions C12_order.
Print Assumptions C12_order_brace.
Print Assumptions C12_range.
Print Assumptions C12_home.
Print Assumptions C12_home_other.
Print Assumptions C12_order_home.
Print Assumptions C12_glob.
Print Assumptions C12_glob_order.
Print Assumptions C12_range_affixes.
Print Assumptions C12_range_context.
Print Assumptions C12_order_range.
Print Assumptions C12_glob_hidden_dir.
Print Assumptions C12_brace_any_group.
Print Assumptions C12_range_total.
