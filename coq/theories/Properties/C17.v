(** C17 -- aliases replace exactly the command word, once; listing and removal.
    Statements only; proofs are in Proofs/AliasProofs.v.  The tokenizer and
    tools::unquote are parameters of the model (Model/Alias.v). *)
From Cicada Require Import Base.Chars Base.Tag Model.Alias Proofs.AliasProofs.
Local Open Scope N_scope.

(** expand_alias (index collection + reverse-order splicing, as in shell.rs) IS a
    single structural pass: the output is the concatenation of the per-token
    images, where only the head of a stage that is an alias with a non-empty
    value is mapped to the tokenised value, and the tokens of a value are never
    examined again -- for every table, tokenizer and token list.  Hence an alias
    that mentions itself or another alias cannot loop (the function is total
    and structurally recursive on the input tokens alone). *)
Theorem C17_once : forall (tokenize : str -> list token) t toks,
  expand_alias tokenize t toks = expand_spec tokenize t toks true.
Proof. exact expand_once. Qed.

(** A stage whose first word is an alias runs as if the value had been written
    there, the remaining words unchanged ... *)
Theorem C17_head : forall tokenize t sep text rest v,
  is_pipe (sep, text) = false -> str_eqb text s_xargs = false ->
  get_alias_content t text = Some v -> pipe_free rest = true ->
  expand_alias tokenize t ((sep, text) :: rest) = tokenize v ++ rest.
Proof. exact stage_alias. Qed.

(** ... a stage whose first word is no alias is unchanged, whatever aliases its other words name ... *)
Theorem C17_nonhead : forall tokenize t sep text rest,
  is_pipe (sep, text) = false -> str_eqb text s_xargs = false ->
  get_alias_content t text = None -> pipe_free rest = true ->
  expand_alias tokenize t ((sep, text) :: rest) = (sep, text) :: rest.
Proof. exact stage_plain. Qed.

(** ... and the stages of a pipeline are expanded independently. *)
Theorem C17_stages : forall tokenize t a b h, pipe_free a = true ->
  expand_spec tokenize t (a ++ (TNone, s_pipe) :: b) h =
  expand_spec tokenize t a h ++ (TNone, s_pipe) :: expand_spec tokenize t b true.
Proof. exact spec_stage_split. Qed.

(** define / redefine / unalias refine a finite map with unique keys. *)
Theorem C17_table :
  (forall t n v m, lookup (add_alias t n v) m = if str_eqb n m then Some v else lookup t m) /\
  (forall t n, snd (remove_alias t n) = is_alias t n /\
               forall m, lookup (fst (remove_alias t n)) m = if str_eqb n m then None else lookup t m) /\
  (forall t n v, NoDup (map fst t) -> NoDup (map fst (add_alias t n v))) /\
  (forall t n, NoDup (map fst t) -> NoDup (map fst (remove t n))).
Proof. repeat split; [apply lookup_add|apply lookup_remove|apply nodup_add|apply nodup_remove]. Qed.

(** Listing, full statement: feeding the listing back recreates every definition.
    The listing prints a value between double quotes when it holds a single quote
    and nothing special inside double quotes, else between single quotes.  In the
    model of quote reading (everything up to the next quote of that kind) the
    quoted word of a listing line reads back as the value exactly when the value
    is outside the class: a single quote together with one of double quote,
    dollar, backquote, backslash. *)
Theorem C17_listing_iff : forall v, read_listed v = Some (v, []) <-> Known_C17 v = false.
Proof. exact read_listed_iff. Qed.

Definition C17_listing_full : Prop := forall v, read_listed v = Some (v, []).
Theorem C17_listing_refuted : ~ C17_listing_full.
Proof.
  intro H. specialize (H [105;116;39;115;34]).   (* it's followed by a double quote *)
  apply (proj1 (read_listed_iff _)) in H. discriminate H.
Qed.

(** Listing, partial statement: for tables whose names are names and whose values
    are outside the class and hold no newline, the alias builtin fed the listing
    lines -- the argument delivered by the tokenizer either with its quotes and
    untagged, or without them and tagged; unquote behaving as stated -- rebuilds
    the same map. *)
Theorem C17_listing : forall (unquote : str -> str),
  (forall n, is_name n = true -> unquote n = n) ->
  (forall v, has_sq v = false -> unquote (c_sq :: v ++ [c_sq]) = v) ->
  (forall v, has_special v = false -> unquote (c_dq :: v ++ [c_dq]) = v) ->
  forall (deliver : str -> str -> token), (forall n v, delivered n v (deliver n v)) ->
  forall t, NoDup (map fst t) -> listable t ->
  forall m, lookup (relist unquote deliver [] t) m = lookup t m.
Proof. exact relist_recreates. Qed.

Check C17_once : forall (tokenize : str -> list token) t toks,
  expand_alias tokenize t toks = expand_spec tokenize t toks true.
Check C17_listing_refuted : ~ C17_listing_full.

(** Non-vacuity: with a blank-splitting tokenizer, the table  ls -> ls -l ,  g -> ls | g
    (self and mutual reference) and the tokens  ls x | xargs g ls  : the heads ls and
    (after xargs) g are replaced once, the non-head ls and the ls / g inside the
    values stay. *)
Fixpoint split_blank (s cur : str) : list token :=
  match s with
  | [] => if is_empty cur then [] else [(TNone, cur)]
  | c :: r => if c =? 32 then (if is_empty cur then split_blank r [] else (TNone, cur) :: split_blank r [])
              else split_blank r (cur ++ [c])
  end.
Definition toy (s : str) := split_blank s [].
Definition ex_t : table := [([108;115], [108;115;32;45;108]); ([103], [108;115;32;124;32;103])].
Example C17_nonvacuous :
  expand_alias toy ex_t (toy [108;115;32;120;32;124;32;120;97;114;103;115;32;103;32;108;115]) =
  toy [108;115;32;45;108;32;120;32;124;32;120;97;114;103;115;32;108;115;32;124;32;103;32;108;115].
Proof. vm_compute. reflexivity. Qed.

(** Round 9: the two matchers of the alias builtin's model ARE the two regexes of alias.rs: equal, on every text, to the
    search of the ASTs regenerated from the source on every run (Gen/BuiltinRegexes.v via drive/regexsites.py). For the
    definition pattern the yes/no decision of [split_def] is tied (it also returns the two captured groups). *)
From Cicada Require Import Base.Regex Gen.BuiltinRegexes Proofs.AliasRegexProofs.
Theorem C17_alias_read_is_source_regex : forall s, is_name s = rx_search rx_alias_read s.
Proof. exact is_name_is_source_regex. Qed.
Theorem C17_alias_add_is_source_regex : forall s,
  (match split_def s nil with Some _ => true | None => false end) = rx_search rx_alias_add s.
Proof. exact split_def_is_source_regex. Qed.
Check C17_alias_read_is_source_regex : forall s, is_name s = rx_search rx_alias_read s.
Check C17_alias_add_is_source_regex : forall s,
  (match split_def s nil with Some _ => true | None => false end) = rx_search rx_alias_add s.
Example C17_source_regex_nonvacuous :
  rx_search rx_alias_read (97 :: 46 :: 45 :: nil)%N = true /\ rx_search rx_alias_read (97 :: 61 :: nil)%N = false /\
  rx_search rx_alias_add (97 :: 61 :: 120 :: nil)%N = true /\ rx_search rx_alias_add (97 :: 61 :: 10 :: nil)%N = false /\
  rx_search rx_alias_add (61 :: 120 :: nil)%N = false.
Proof. vm_compute. repeat split. Qed.

Print Assumptions C17_once.
Print Assumptions C17_head.
Print Assumptions C17_nonhead.
Print Assumptions C17_stages.
Print Assumptions C17_table.
Print Assumptions C17_listing_iff.
Print Assumptions C17_listing_refuted.
Print Assumptions C17_listing.
Print Assumptions C17_alias_read_is_source_regex.
Print Assumptions C17_alias_add_is_source_regex.
