(** C03 -- command lists run left to right with correct short-circuit and status.
    Statements only; proofs are in Proofs/. *)
From Cicada Require Import Base.Chars Model.Cmds Model.ListExec Proofs.ListExecProofs Proofs.CmdsProofs.
From Coq Require Import ZArith.

(** The splitter cuts a rendered list exactly at its operators, whatever
    quoted / escaped / backquoted decoys the pipelines contain and whatever
    white space surrounds the operators. *)
Theorem C03_split : forall ws0 seg0 items ws_end,
  forallb is_ws ws0 = true -> wf_seg seg0 = true -> forallb wf_item items = true ->
  forallb is_ws ws_end = true ->
  line_to_cmds (render_line ws0 seg0 items ws_end) = tokens_of (prog_of seg0 items).
Proof. exact line_to_cmds_render. Qed.

(** The evaluation loop is the reference semantics, for every runner. *)
Theorem C03_exec : forall (W : Type) (run : W -> str -> W * Z) (w : W) (p : prog),
  wf_prog p -> obs W (run_tokens W run w (tokens_of p)) = ref_exec W run w p.
Proof. exact run_tokens_ref. Qed.

(** Full statement: text in, (world, $? , executed pipelines with their statuses) out. *)
Theorem C03_full : forall (W : Type) (run : W -> str -> W * Z) (w : W) ws0 seg0 items ws_end,
  forallb is_ws ws0 = true -> wf_seg seg0 = true -> forallb wf_item items = true ->
  forallb is_ws ws_end = true ->
  obs W (run_command_line W run w (render_line ws0 seg0 items ws_end)) =
  ref_exec W run w (prog_of seg0 items).
Proof. exact run_command_line_ref. Qed.

Check C03_split : forall ws0 seg0 items ws_end,
  forallb is_ws ws0 = true -> wf_seg seg0 = true -> forallb wf_item items = true ->
  forallb is_ws ws_end = true ->
  line_to_cmds (render_line ws0 seg0 items ws_end) = tokens_of (prog_of seg0 items).
Check C03_full : forall (W : Type) (run : W -> str -> W * Z) (w : W) ws0 seg0 items ws_end,
  forallb is_ws ws0 = true -> wf_seg seg0 = true -> forallb wf_item items = true ->
  forallb is_ws ws_end = true ->
  obs W (run_command_line W run w (render_line ws0 seg0 items ws_end)) =
  ref_exec W run w (prog_of seg0 items).

(** Non-vacuity: the line  false && echo 'a;b' ; echo \; "x||y"   (trailing blank)
    meets the hypotheses, and is split / run as the theorems say. *)
Local Open Scope N_scope.
Definition ex_seg0 := map APlain [102; 97; 108; 115; 101].                     (* false *)
Definition ex_it1 := mki [32] OpAnd [32]
  (map APlain [101; 99; 104; 111; 32] ++ [ASq [97; 59; 98]]).                    (* echo 'a;b' *)
Definition ex_it2 := mki [32] OpSemi [32; 32]
  (map APlain [101; 99; 104; 111; 32] ++ [AEsc 59; APlain 32; ADq [120; 124; 124; 121]]).
Example C03_nonvacuous :
  forallb is_ws [] = true /\ wf_seg ex_seg0 = true /\ forallb wf_item [ex_it1; ex_it2] = true /\
  forallb is_ws [32] = true /\
  length (line_to_cmds (render_line [] ex_seg0 [ex_it1; ex_it2] [32])) = 5%nat /\
  (* with a runner under which "false" fails and everything else succeeds, only
     the first and the last pipeline run and the final status is 0 *)
  (let run := fun (w : unit) (p : str) => (w, if str_eqb p (render_seg ex_seg0) then 1%Z else 0%Z) in
   let '(_, st, ran) := obs unit (run_command_line unit run tt (render_line [] ex_seg0 [ex_it1; ex_it2] [32])) in
   (st, length ran) = (0%Z, 2%nat)).
Proof. vm_compute. repeat split. Qed.

Print Assumptions C03_split.
Print Assumptions C03_exec.
Print Assumptions C03_full.
