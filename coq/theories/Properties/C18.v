(** C18 -- history stores every submitted line verbatim, durably, injection-free.
    Statements only; proofs are in Proofs/HistoryProofs.v.  The model
    (Model/History.v) follows the code as repaired by b952f8c: every statement is a
    template plus bound parameters.  Meaning of binding (trusted, compared with
    sqlite on every case): a bound value is stored / compared verbatim and is
    never read as SQL.  The only text still pasted into a statement is the table
    name from HISTORY_TABLE (configuration, not command text, search pattern or
    directory name) and numbers (rowid, limit). *)
From Coq Require Import ZArith.
From Cicada Require Import Base.Chars Base.Tag Model.History Proofs.HistoryProofs.
Local Open Scope N_scope.

(** Injection-freedom of recording, for ALL inputs: the INSERT text is the same
    whatever the line, the status, the times, the session id and the directory. *)
Theorem C18_insert_text : forall table l1 st1 b1 e1 s1 d1 l2 st2 b2 e2 s2 d2,
  fst (insert_stmt table l1 st1 b1 e1 s1 d1) = fst (insert_stmt table l2 st2 b2 e2 s2 d2).
Proof. reflexivity. Qed.

(** Full statement (recording): for EVERY line, session id and directory name the
    statement stores exactly one row, whose text is the line up to the trim()
    the code applies, and whose directory record holds the name verbatim. *)
Theorem C18_full : forall table line status tsb tse session dir,
  insert_rows table (insert_stmt table line status tsb tse session dir) =
  Some [[VStr (trim line); VNum status; VNum tsb; VNum tse; VStr session; VStr (s_dir ++ dir ++ s_bar)]].
Proof. exact insert_exact. Qed.

(** A new row gets a fresh rowid and is appended; no existing row changes. *)
Theorem C18_insert_appends : forall rows inp tsb s i,
  db_insert rows inp tsb s i = rows ++ [mkrow (next_id rows) inp tsb s i] /\
  (forall r, In r rows -> r_id r <> next_id rows).
Proof. exact db_insert_spec. Qed.

(** Injection-freedom of listing, for ALL inputs: the SELECT text depends on the
    pattern only through its emptiness, and not at all on session id or directory. *)
Theorem C18_select_text : forall table p1 s1 d1 p2 s2 d2 o lim,
  is_empty p1 = is_empty p2 ->
  fst (select_stmt table p1 s1 d1 o lim) = fst (select_stmt table p2 s2 d2 o lim).
Proof. exact select_text_indep. Qed.

(** The bound values are the pattern and the directory record wrapped in percent
    signs and the session id, in clause order; as many as there are placeholders. *)
Theorem C18_select_params : forall table p s d o lim,
  snd (select_stmt table p s d o lim) =
  (if is_empty p then [] else [wrap_pct p]) ++ (if o_session o then [s] else []) ++
  (if o_pwd o then [wrap_pct (pwd_inner d)] else []).
Proof. exact select_params_spec. Qed.
Theorem C18_select_arity : forall table p s d o lim,
  count_char c_qm table = O -> count_char c_qm lim = O ->
  count_char c_qm (fst (select_stmt table p s d o lim)) = length (snd (select_stmt table p s d o lim)).
Proof. exact select_arity. Qed.

(** What the clauses mean for a row (bound values compared verbatim). *)
Theorem C18_row_matches : forall p s d o r,
  row_matches p s d o r =
  (is_empty p || like (wrap_pct p) (r_inp r)) &&
  (negb (o_session o) || str_eqb (r_session r) s) &&
  (negb (o_pwd o) || like (wrap_pct (pwd_inner d)) (r_info r)).
Proof. exact row_matches_spec. Qed.

(** Listing shows only stored rows that satisfy the filters; all of them when no limit applies. *)
Theorem C18_list_sound : forall rows p s d o r,
  In r (db_list rows p s d o) -> In r rows /\ row_matches p s d o r = true.
Proof. exact db_list_sound. Qed.
Theorem C18_list_complete : forall rows p s d o r, (o_limit o < 0)%Z ->
  In r rows -> row_matches p s d o r = true -> In r (db_list rows p s d o).
Proof. exact db_list_complete. Qed.

(** Order of the listing (code as repaired by 6b3083d: ORDER BY tsb, rowid / order by tsb
    desc, rowid desc, the latter reversed before printing).  Full statement: for every
    table whose rowids increase along it (sqlite's allocation: C18_insert_keeps_order) and
    whose tsb never decreases along it, the listing is the matching rows IN SUBMISSION
    ORDER -- the first [limit] of them with -a, the last [limit] without.  Equal tsb are
    allowed (every history add without -t gets 0).  What the code still relies on for
    lines typed at the prompt is that the wall clock read before each command does not
    step back between two submissions. *)
Definition list_spec (rows : list row) (p s d : str) (o : lopts) : list row :=
  let m := filter (row_matches p s d o) rows in
  if o_asc o then take_limit (o_limit o) m else rev (take_limit (o_limit o) (rev m)).
Theorem C18_order_full : forall rows p s d o, ids_incr rows = true -> tsb_nondecr rows = true ->
  db_list rows p s d o = list_spec rows p s d o.
Proof. exact list_order. Qed.
Theorem C18_insert_keeps_order : forall rows inp tsb s i, ids_incr rows = true -> tsb_nondecr rows = true ->
  forallb (fun r => (r_tsb r <=? tsb)%Z) rows = true ->
  ids_incr (db_insert rows inp tsb s i) = true /\ tsb_nondecr (db_insert rows inp tsb s i) = true.
Proof. exact insert_keeps_order. Qed.
(** non-vacuity / regression witness: three rows with tsb 0 list as submitted; limit 2 keeps the two newest *)
Example C18_order_ties :
  ids_incr tie_rows = true /\ tsb_nondecr tie_rows = true /\
  db_list tie_rows [] [] [] (mko false false false 20%Z) = tie_rows /\
  db_list tie_rows [] [] [] (mko false false false 2%Z) = [mkrow 2 [98] 0%Z [] []; mkrow 3 [99] 0%Z [] []].
Proof. repeat split. Qed.

(** Search has no false negatives: a row whose text contains the pattern verbatim
    matches, whatever percent signs / underscores the pattern holds (they only add matches). *)
Theorem C18_search_complete : forall p a b, like (wrap_pct p) (a ++ p ++ b) = true.
Proof. exact search_complete. Qed.

(** history delete n: the table loses exactly row n; the only pasted value is a
    number, so the text holds no character a number cannot hold (quote, placeholder...). *)
Theorem C18_delete_exact : forall rows n r, In r (db_delete rows n) <-> In r rows /\ r_id r <> n.
Proof. exact db_delete_exact. Qed.
Theorem C18_delete_text : forall table n k, is_digit k = false -> has_char k table = false ->
  has_char k (s_delete ++ s_where_rowid) = false -> forallb is_digit n = true ->
  has_char k (delete_sql table n) = false.
Proof. exact delete_sql_plain. Qed.

(** Recording rule of the read loop: never two equal lines in a row; (without
    bang-bang expansion) exactly the typed non-blank lines without leading space
    are candidates, and each of them is recorded at least once. *)
Theorem C18_record_rule : forall bang typed prev, adj_distinct (prev :: session_run bang prev typed).
Proof. exact session_no_repeat. Qed.
Theorem C18_record_sound : forall typed prev l, In l (session_run idbang prev typed) ->
  In l typed /\ starts_with_space l = false /\ trim l <> [].
Proof. exact session_sound. Qed.
Theorem C18_record_complete : forall typed t, In t typed -> starts_with_space t = false -> trim t <> [] ->
  In t (session_run idbang [] typed).
Proof. exact session_complete. Qed.

(** Lines starting with a blank are not recorded -- stated on the TYPED text, for every line
    including those holding !!, and for EVERY !! expander (the guard of main.rs looks at
    sh.cmd, not at the line rebuilt by extend_bangbang, which has lost its leading blank):
    such a line yields no row and leaves previous_cmd alone; deleting all of them from a
    session does not change what the session records; every recorded text is the
    expansion of a typed line without leading blank.  Lines with !! that do not start
    with a blank ARE recorded, as the expanded (rebuilt) text, which is what the code
    hands to history::add; a line without !!, and any line while previous_cmd is empty,
    is recorded as typed. *)
Theorem C18_record_space_led : forall bang prev typed, starts_with_space typed = true ->
  session_step bang prev typed = (None, prev).
Proof. exact space_led_step. Qed.
Theorem C18_record_space_led_run : forall bang typed prev,
  session_run bang prev typed = session_run bang prev (filter (fun t => negb (starts_with_space t)) typed).
Proof. exact space_led_run. Qed.
Theorem C18_record_origin : forall bang typed prev l, In l (session_run bang prev typed) ->
  exists t p, In t typed /\ starts_with_space t = false /\ l = bang p t.
Proof. exact recorded_origin. Qed.
Theorem C18_record_expanded : forall bang prev t, starts_with_space t = false -> trim t <> [] ->
  bang prev t <> prev -> session_step bang prev t = (Some (bang prev t), bang prev t).
Proof. exact expanded_recorded. Qed.
Theorem C18_bang_unchanged : forall tokenize prev line,
  (has_bb line = false \/ prev = []) -> extend_bangbang tokenize prev line = line.
Proof. exact bang_unchanged. Qed.

(** Non-vacuity, with a blank-splitting tokenizer and previous_cmd = true a:  the typed line
    _echo hidden !!  (leading blank) expands to  echo hidden true a  -- no leading blank any
    more -- and is NOT recorded;  echo  x !!  (two blanks inside) is recorded as  echo x true a. *)
Fixpoint split_blank (s cur : str) : list (Tag.tag * str) :=
  match s with
  | [] => if is_empty cur then [] else [(Tag.TNone, cur)]
  | c :: r => if c =? 32 then (if is_empty cur then split_blank r [] else (Tag.TNone, cur) :: split_blank r [])
              else split_blank r (cur ++ [c])
  end.
Definition toy_bang := extend_bangbang (fun s => split_blank s []).
Definition ex_prev : str := [116;114;117;101;32;97].
Example C18_bang_nonvacuous :
  toy_bang ex_prev [32;101;99;104;111;32;104;105;100;100;101;110;32;33;33] =
    [101;99;104;111;32;104;105;100;100;101;110;32;116;114;117;101;32;97] /\
  session_step toy_bang ex_prev [32;101;99;104;111;32;104;105;100;100;101;110;32;33;33] = (None, ex_prev) /\
  fst (session_step toy_bang ex_prev [101;99;104;111;32;32;120;32;33;33]) =
    Some [101;99;104;111;32;120;32;116;114;117;101;32;97] /\
  session_step toy_bang ex_prev [33;33] = (None, ex_prev).
Proof. vm_compute. repeat split. Qed.

(** Several shell processes sharing one database.  The initial previous_cmd of a fresh
    process is empty whatever rows are stored (Shell::new; history::init does not touch it):
    what a process records does not depend on the stored rows; in particular the FIRST
    line typed in a new process is recorded even when it equals a stored row; and the
    table after any sequence of processes is the old rows followed by each process's
    own records -- one row per submission, repeats suppressed only within one session. *)
Theorem C18_record_independent : forall bang s1 s2 p, proc_records bang s1 p = proc_records bang s2 p.
Proof. exact proc_independent. Qed.
Theorem C18_record_first : forall stored t rest,
  starts_with_space t = false -> trim t <> [] ->
  exists r, proc_records idbang stored (Interactive (t :: rest)) = t :: r.
Proof. exact first_line_recorded. Qed.
Theorem C18_record_processes : forall bang ps stored,
  db_procs bang stored ps = stored ++ concat (map (proc_records bang []) ps).
Proof. exact db_procs_concat. Qed.

Check C18_full : forall table line status tsb tse session dir,
  insert_rows table (insert_stmt table line status tsb tse session dir) =
  Some [[VStr (trim line); VNum status; VNum tsb; VNum tse; VStr session; VStr (s_dir ++ dir ++ s_bar)]].
Check C18_insert_text : forall table l1 st1 b1 e1 s1 d1 l2 st2 b2 e2 s2 d2,
  fst (insert_stmt table l1 st1 b1 e1 s1 d1) = fst (insert_stmt table l2 st2 b2 e2 s2 d2).
Check C18_select_text : forall table p1 s1 d1 p2 s2 d2 o lim,
  is_empty p1 = is_empty p2 ->
  fst (select_stmt table p1 s1 d1 o lim) = fst (select_stmt table p2 s2 d2 o lim).

(** Non-vacuity / regression witnesses: the two directory names that broke the
    unrepaired code (a quote; the crafted second-row name) and a line holding both
    quote kinds, percent, underscore, backslash, semicolon, two dashes, a closing
    parenthesis and a non-ASCII letter with blanks at both ends now store exactly
    the one intended row; the row-level recogniser is not trivially Some (a
    template with a placeholder that has no value is rejected). *)
Definition w_table : str := [99;105;99;97;100;97;95;104;105;115;116;111;114;121].
Definition w_num0 : str := [48].
Definition w_sess : str := [115;49].
Definition w_dir_quote : str := [47;116;109;112;47;105;116;39;115].
Definition w_dir_inject : str :=
  [47;119;47;120;124;39;41;44;32;40;39;112;119;110;39;44;32;48;44;32;48;44;32;48;44;32;39;115;39;44;32;39;100;105;114;58;121].
Definition ex_line : str := [32;105;116;39;115;32;34;120;34;32;37;95;92;59;45;45;41;32;233;32].
Example C18_nonvacuous :
  insert_rows w_table (insert_stmt w_table ex_line w_num0 w_num0 w_num0 w_sess w_dir_inject) =
    Some [[VStr [105;116;39;115;32;34;120;34;32;37;95;92;59;45;45;41;32;233]; VNum w_num0; VNum w_num0; VNum w_num0;
           VStr w_sess; VStr (s_dir ++ w_dir_inject ++ s_bar)]] /\
  insert_rows w_table (insert_stmt w_table ex_line w_num0 w_num0 w_num0 w_sess w_dir_quote) <> None /\
  insert_rows w_table (insert_template w_table, [VStr ex_line]) = None /\
  row_matches [105;116;39] w_sess w_dir_quote (mko false true true 20%Z)
    (mkrow 1 [105;116;39;115] 0%Z w_sess (s_dir ++ w_dir_quote ++ s_bar)) = true.
Proof. vm_compute. repeat split. discriminate. Qed.

Print Assumptions C18_insert_text.
Print Assumptions C18_full.
Print Assumptions C18_insert_appends.
Print Assumptions C18_select_text.
Print Assumptions C18_select_params.
Print Assumptions C18_select_arity.
Print Assumptions C18_row_matches.
Print Assumptions C18_list_sound.
Print Assumptions C18_list_complete.
Print Assumptions C18_search_complete.
Print Assumptions C18_order_full.
Print Assumptions C18_insert_keeps_order.
Print Assumptions C18_delete_exact.
Print Assumptions C18_delete_text.
Print Assumptions C18_record_rule.
Print Assumptions C18_record_sound.
Print Assumptions C18_record_complete.
Print Assumptions C18_record_space_led.
Print Assumptions C18_record_space_led_run.
Print Assumptions C18_record_origin.
Print Assumptions C18_record_expanded.
Print Assumptions C18_bang_unchanged.
(** Round 9 (regexgen): the two-bangs test of the model IS the regex of tools::extend_bangbang (three occurrences in
    the source, checked equal by the generator): equal on every text to the search of the AST regenerated from tools.rs
    on every run (Gen/ToolsRegexes.v). The same for the copy in Model/Rerender.v. *)
From Cicada Require Base.Regex Gen.ToolsRegexes Model.Rerender Proofs.BangRegexProofs.
Theorem C18_bangbang_is_source_regex : forall s,
  has_bb s = Regex.rx_search Gen.ToolsRegexes.rx_bangbang s /\
  Rerender.has_bangbang s = Regex.rx_search Gen.ToolsRegexes.rx_bangbang s.
Proof.
  intros s. split; [apply Proofs.BangRegexProofs.has_bb_is_source_regex
                   | apply Proofs.BangRegexProofs.has_bangbang_is_source_regex].
Qed.
Check C18_bangbang_is_source_regex : forall s,
  has_bb s = Regex.rx_search Gen.ToolsRegexes.rx_bangbang s /\
  Rerender.has_bangbang s = Regex.rx_search Gen.ToolsRegexes.rx_bangbang s.
Example C18_bangbang_regex_nonvacuous :
  Regex.rx_search Gen.ToolsRegexes.rx_bangbang [97;33;33]%N = true /\
  Regex.rx_search Gen.ToolsRegexes.rx_bangbang [33;97;33]%N = false.
Proof. vm_compute. repeat split. Qed.
Print Assumptions C18_bangbang_is_source_regex.
Print Assumptions C18_record_independent.
Print Assumptions C18_record_first.
Print Assumptions C18_record_processes.
