(** C18 -- history stores every submitted line verbatim, durably, injection-free.
    Statements only; proofs are in Proofs/HistoryProofs.v.  The model
    (Model/History.v) is the text of the statements cicada assembles with format!,
    sqlite's string-literal lexing, a recogniser of the INSERT shape, and the
    table as a row list. *)
From Coq Require Import ZArith.
From Cicada Require Import Base.Chars Model.History Proofs.HistoryProofs.
Local Open Scope N_scope.

(** The quote-doubled line text is read back by sqlite's literal lexer as exactly
    the text, and the literal ends exactly at its closing quote -- for EVERY text
    (the code applies trim() first; code point 0 cannot be delivered). Hence no
    line text can end its literal early. *)
Theorem C18_line : forall line rest,
  has_nul line = false -> no_sq_head rest ->
  lex_literal (c_sq :: quote_body line ++ c_sq :: rest) = Some (line, rest).
Proof. exact lex_literal_quote. Qed.

(** A text pasted between quotes WITHOUT doubling (what the code does with the
    directory name, the session id and the search pattern) is read back as
    itself exactly when it holds no quote. *)
Theorem C18_literal_iff : forall x rest,
  has_nul x = false -> no_sq_head rest ->
  (lex_literal (c_sq :: x ++ c_sq :: rest) = Some (x, rest) <-> has_sq x = false).
Proof. exact literal_raw_iff. Qed.

(** The whole INSERT text of add_raw is a well-formed one-row INSERT whose inp
    value is exactly trim(line) -- whatever the line holds -- provided session id
    and directory hold no quote. *)
Theorem C18_insert_ok : forall table line status tsb tse session dir,
  wf_args line status tsb tse session dir ->
  has_sq session = false -> has_sq dir = false ->
  parse_insert table (insert_sql table line status tsb tse session dir) =
  Some [intended_row line status tsb tse session dir].
Proof. exact insert_ok. Qed.

(** Full statement (no text of any kind can disturb recording): false. *)
Definition C18_full : Prop := forall table line status tsb tse session dir,
  wf_args line status tsb tse session dir -> insert_exact table line status tsb tse session dir.

(** Refuted by the directory /tmp/it's : the statement is not an INSERT at all
    (observed on the binary: save error, the line is not recorded). *)
Theorem C18_dir_refuted : ~ C18_full.
Proof. exact not_full. Qed.

(** ... and by a crafted directory name the statement is a well-formed INSERT of
    two rows, one of them never submitted (observed on the binary: row pwn). *)
Theorem C18_dir_injection :
  wf_args w_line w_num0 w_num0 w_num1 w_sess w_dir_inject /\
  exists r1 r2, parse_insert w_table (insert_sql w_table w_line w_num0 w_num0 w_num1 w_sess w_dir_inject) = Some [r1; r2].
Proof. split; [exact w_wf_inject|]. eexists; eexists; exact dir_injection. Qed.

(** The search pattern (and, for -p, the directory) inside the LIKE literal:
    read back as the intended pattern exactly when it holds no quote. *)
Theorem C18_pattern_iff : forall p rest, has_nul p = false -> no_sq_head rest ->
  (lex_literal (like_lit p ++ rest) = Some (wrap_pct p, rest) <-> has_sq p = false).
Proof. exact like_lit_iff. Qed.

Theorem C18_pattern_refuted : exists p, has_nul p = false /\
  forall rest, no_sq_head rest -> lex_literal (like_lit p ++ rest) <> Some (wrap_pct p, rest).
Proof.
  exists w_pat_quote. split; [reflexivity|]. intros rest Hr H.
  apply (proj1 (like_lit_iff w_pat_quote rest eq_refl Hr)) in H. discriminate H.
Qed.

(** Partial statement: outside the known class (a quote in the directory name or
    in the session id) every line is recorded exactly. *)
Definition Known_C18 (session dir : str) : bool := has_sq session || has_sq dir.
Theorem C18_partial : forall table line status tsb tse session dir,
  wf_args line status tsb tse session dir -> Known_C18 session dir = false ->
  insert_exact table line status tsb tse session dir.
Proof.
  intros table line status tsb tse session dir W K. apply orb_false_iff in K as [K1 K2]. now apply insert_ok.
Qed.

(** history delete n: the statement holds no literal, and the table loses exactly row n. *)
Theorem C18_delete_exact : forall rows n r, In r (db_delete rows n) <-> In r rows /\ r_id r <> n.
Proof. exact db_delete_exact. Qed.
Theorem C18_delete_text : forall table n, has_sq table = false -> forallb is_digit n = true ->
  has_sq (delete_sql table n) = false.
Proof. exact delete_sql_no_quote. Qed.

(** A new row gets a fresh rowid and is appended; no existing row changes. *)
Theorem C18_insert_appends : forall rows inp tsb s i,
  db_insert rows inp tsb s i = rows ++ [mkrow (next_id rows) inp tsb s i] /\
  (forall r, In r rows -> r_id r <> next_id rows).
Proof. exact db_insert_spec. Qed.

(** Listing shows only stored rows that satisfy the filters; all of them when no limit applies. *)
Theorem C18_list_sound : forall rows p s d o r,
  In r (db_list rows p s d o) -> In r rows /\ row_matches p s d o r = true.
Proof. exact db_list_sound. Qed.
Theorem C18_list_complete : forall rows p s d o r, (o_limit o < 0)%Z ->
  In r rows -> row_matches p s d o r = true -> In r (db_list rows p s d o).
Proof. exact db_list_complete. Qed.

(** Search has no false negatives: a row whose text contains the pattern verbatim
    matches, whatever percent signs / underscores the pattern holds (they only add matches). *)
Theorem C18_search_complete : forall p a b, like (wrap_pct p) (a ++ p ++ b) = true.
Proof. exact search_complete. Qed.

(** Recording rule of the read loop: never two equal lines in a row; (without
    bang-bang expansion) exactly the typed non-blank lines without leading space
    are candidates, and each of them is recorded at least once. *)
Theorem C18_record_rule : forall bang typed prev, adj_distinct (prev :: session_run bang prev typed).
Proof. exact session_no_repeat. Qed.
Theorem C18_record_sound : forall typed prev l, In l (session_run idbang prev typed) ->
  In l typed /\ starts_with_space l = false /\ trim l <> [].
Proof. exact session_sound. Qed.
Theorem C18_record_complete : forall typed t, In t typed -> starts_with_space t = false -> trim t <> [] ->
  In t (session_run idbang [] typed).
Proof. exact session_complete. Qed.

Check C18_line : forall line rest, has_nul line = false -> no_sq_head rest ->
  lex_literal (c_sq :: quote_body line ++ c_sq :: rest) = Some (line, rest).
Check C18_insert_ok : forall table line status tsb tse session dir,
  wf_args line status tsb tse session dir -> has_sq session = false -> has_sq dir = false ->
  parse_insert table (insert_sql table line status tsb tse session dir) =
  Some [intended_row line status tsb tse session dir].
Check C18_dir_refuted : ~ C18_full.
Check C18_partial : forall table line status tsb tse session dir,
  wf_args line status tsb tse session dir -> Known_C18 session dir = false ->
  insert_exact table line status tsb tse session dir.

(** Non-vacuity: a line holding a single quote, double quotes, percent, underscore,
    backslash, semicolon, two dashes, a closing parenthesis and a non-ASCII letter,
    with blanks at both ends, in a directory whose name holds a percent sign and a
    double quote, with session s1 meets the hypotheses of C18_insert_ok,
    and the recogniser yields the trimmed line. *)
Definition ex_line : str := [32;105;116;39;115;32;34;120;34;32;37;95;92;59;45;45;41;32;233;32].
Definition ex_dir : str := [47;119;47;112;37;113;34;114].
Example C18_nonvacuous :
  wf_args ex_line w_num0 w_num0 w_num1 w_sess ex_dir /\ has_sq w_sess = false /\ has_sq ex_dir = false /\
  has_sq ex_line = true /\
  parse_insert w_table (insert_sql w_table ex_line w_num0 w_num0 w_num1 w_sess ex_dir) =
  Some [[VStr [105;116;39;115;32;34;120;34;32;37;95;92;59;45;45;41;32;233]; VNum w_num0; VNum w_num0; VNum w_num1;
         VStr w_sess; VStr [100;105;114;58;47;119;47;112;37;113;34;114;124]]].
Proof.
  split; [|vm_compute; repeat split].
  split; try reflexivity; (split; [discriminate|reflexivity]).
Qed.

Print Assumptions C18_line.
Print Assumptions C18_literal_iff.
Print Assumptions C18_insert_ok.
Print Assumptions C18_dir_refuted.
Print Assumptions C18_dir_injection.
Print Assumptions C18_pattern_iff.
Print Assumptions C18_pattern_refuted.
Print Assumptions C18_partial.
Print Assumptions C18_delete_exact.
Print Assumptions C18_delete_text.
Print Assumptions C18_insert_appends.
Print Assumptions C18_list_sound.
Print Assumptions C18_list_complete.
Print Assumptions C18_search_complete.
Print Assumptions C18_record_rule.
Print Assumptions C18_record_sound.
Print Assumptions C18_record_complete.
