(** C10 -- parameter expansion substitutes current values, once, and always terminates.
    Statements only; proofs are in Proofs/. *)
From Coq Require Import List NArith ZArith.
From Cicada Require Import Base.Chars Base.Tag Model.Expand Model.ExpandRef
  Proofs.ExpandBasics Proofs.EnvWitness Proofs.EnvProofs Proofs.ExpandInert Model.ExpandOnce Proofs.ExpandOnceProofs.
From Cicada Require Model.Tokenizer.
Import ListNotations.
Local Open Scope N_scope.

(** Full statement (false of the faithful model): every word assembled from literal and
    reference segments expands, within some bounded number of iterations, to the one-pass
    substitution [den_pieces] -- for every world. *)
Definition C10_full : Prop :=
  forall W ps tg, wf_pieces ps = true -> tg <> TSq -> tg <> TBq ->
  exists f, expand_env f W [(tg, render_pieces ps)] = Ok [(tg, den_pieces W ps)].

Theorem C10_refuted : ~ C10_full.
Proof. exact full_refuted. Qed.

(** ... in three ways: the inserted value is rescanned, *)
Theorem C10_refuted_rescan :
  wf_pieces ps_A = true /\ den_pieces W_rescan ps_A = [120; 36; 66] /\
  forall f, (3 <= f)%nat -> expand_env f W_rescan [(TNone, render_pieces ps_A)] = Ok [(TNone, [120; 121])].
Proof. exact rescan_witness. Qed.

(** a variable that refers to itself never finishes, *)
Theorem C10_refuted_self_reference : forall f tg, tg <> TSq -> tg <> TBq ->
  expand_env f W_self [(tg, render_pieces ps_A)] = OutOfFuel.
Proof. exact self_reference_hangs. Qed.

(** and neither does a word with a newline before a reference, or an unterminated brace. *)
Theorem C10_refuted_newline : forall W f tg, tg <> TSq -> tg <> TBq ->
  expand_env f W [(tg, [97; 10; 36; 65])] = OutOfFuel.
Proof. exact newline_hangs. Qed.
Theorem C10_refuted_unterminated : forall W f tg, tg <> TSq -> tg <> TBq ->
  expand_env f W [(tg, [36; 123; 65])] = OutOfFuel.
Proof. exact unterminated_brace_hangs. Qed.

(** The mechanism of every hang: a fixed point of expand_one_env that env_in_token accepts. *)
Theorem C10_diverges : forall W t,
  expand_one_env W t = t -> env_in_token t = true -> forall f, expand_env_loop f W t = OutOfFuel.
Proof. exact expand_env_loop_diverges. Qed.

(** Unconditional: single-quoted (and backquoted) tokens are never touched. *)
Theorem C10_single_quoted : forall f W toks,
  (forall t, In t toks -> fst t = TSq \/ fst t = TBq) -> expand_env f W toks = Ok toks.
Proof. exact expand_env_quoted. Qed.
Theorem C10_single_quoted_in_line : forall f W pre s post r,
  expand_env f W (pre ++ (TSq, s) :: post) = Ok r ->
  exists pre' post', r = pre' ++ (TSq, s) :: post' /\ length pre' = length pre.
Proof. exact expand_env_keeps_sq. Qed.

(** Partial statement: outside the recorded classes -- i.e. for every word that is the
    rendering of a well-formed segment list (each dollar starts a well-formed reference,
    unbraced names are maximal) whose literal characters and referenced values contain no
    dollar, no newline, no open paren and not both an equals sign and a backquote / single
    quote ([c10_dom], a decidable predicate) -- the loop ends within [count_refs + 1]
    iterations with exactly the one-pass substitution, for every world. *)
Definition Known_C10 (W : World) (ps : list piece) : Prop := c10_dom W ps = false.
Theorem C10_partial : forall W ps tg,
  ~ Known_C10 W ps -> tg <> TSq -> tg <> TBq ->
  expand_env (S (count_refs ps)) W [(tg, render_pieces ps)] = Ok [(tg, den_pieces W ps)].
Proof.
  intros W ps tg H. apply expand_env_pieces. unfold Known_C10 in H.
  destruct (c10_dom W ps); [reflexivity | exfalso; apply H; reflexivity].
Qed.

Check C10_partial : forall W ps tg,
  ~ Known_C10 W ps -> tg <> TSq -> tg <> TBq ->
  expand_env (S (count_refs ps)) W [(tg, render_pieces ps)] = Ok [(tg, den_pieces W ps)].

(** Non-vacuity: the word  pre-$A${AB}$A_1.$?  with A = "a.*[b", AB = "p q", A_1 unset meets the
    hypothesis, has four references, and expands to  pre-a.*[bp q.0 . *)
Definition ex_W := world_of [([65], [97; 46; 42; 91; 98]); ([65; 66], [112; 32; 113])] [].
Definition ex_ps := map PLit [112; 114; 101; 45] ++
  [PRef false [65]; PRef true [65; 66]; PRef false [65; 95; 49]; PLit 46; PRef false [63]].
Example C10_nonvacuous :
  c10_dom ex_W ex_ps = true /\ count_refs ex_ps = 4%nat /\
  expand_env 5 ex_W [(TDq, render_pieces ex_ps)]
  = Ok [(TDq, [112; 114; 101; 45; 97; 46; 42; 91; 98; 112; 32; 113; 46; 48])].
Proof. vm_compute. repeat split. Qed.

(** Through ALL passes of do_expansion (composed with the real tokenizer): behind an inert command
    word, single-quoted tokens and dollar- and backquote-free double-quoted tokens come out unchanged,
    and a double-quoted token in the domain of C10_partial comes out as ONE double-quoted token holding
    the one-pass substitution; every other token is unchanged (used by C01 / C13). *)
Theorem C10_do_expansion_inert : forall W fuel cmd l l',
  cmd_ok W cmd -> Forall2 (tok_ok W fuel) l l' ->
  do_expansion Tokenizer.parse_line W fuel ((TNone, cmd) :: l) = Ok ((TNone, cmd) :: l').
Proof. exact do_expansion_inert. Qed.
(** ... whereas an UNTAGGED reference whose value is a pipe character becomes the untagged token | . *)
Example C10_untagged_value_is_syntax :
  do_expansion Tokenizer.parse_line (world_of [([65], [124])] []) 5 [(TNone, [101; 99; 104; 111]); (TNone, [36; 65])]
  = Ok [(TNone, [101; 99; 104; 111]); (TNone, [124])].
Proof. exact untagged_value_is_syntax. Qed.

(** About the PROPOSED repair (notes/C10-fix-1.patch; Model/ExpandOnce.v transcribes the patched
    functions): the one-pass expansion is the reference for every world -- values are unrestricted. *)
Theorem C10_once_variant : forall W noeq ps tg,
  wf_pieces ps = true -> lits_ok noeq ps = true -> tg <> TSq -> tg <> TBq ->
  expand_env_tok1 W (tg, render_pieces ps) = (tg, den_pieces W ps).
Proof. exact once_tok_is_den. Qed.

Check C10_refuted : ~ C10_full.
Check C10_diverges : forall W t,
  expand_one_env W t = t -> env_in_token t = true -> forall f, expand_env_loop f W t = OutOfFuel.
Check C10_single_quoted : forall f W toks,
  (forall t, In t toks -> fst t = TSq \/ fst t = TBq) -> expand_env f W toks = Ok toks.

Print Assumptions C10_partial.
Print Assumptions C10_do_expansion_inert.
Print Assumptions C10_once_variant.
Print Assumptions C10_refuted.
Print Assumptions C10_refuted_rescan.
Print Assumptions C10_refuted_self_reference.
Print Assumptions C10_refuted_newline.
Print Assumptions C10_refuted_unterminated.
Print Assumptions C10_diverges.
Print Assumptions C10_single_quoted.
Print Assumptions C10_single_quoted_in_line.
