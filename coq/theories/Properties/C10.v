(** C10 -- parameter expansion substitutes current values, once, and always terminates.
    Statements only; proofs are in Proofs/.  Since e586def the pass is ONE left-to-right scan:
    [expand_env : World -> tokens -> tokens] has no fuel and no failure outcome -- termination is
    structural (a Fixpoint over the characters of the token). *)
From Coq Require Import List NArith ZArith.
From Cicada Require Import Base.Chars Base.Tag Model.Expand Model.ExpandRef
  Proofs.ExpandBasics Proofs.EnvProofs Proofs.ExpandOnceProofs Proofs.EnvGate Proofs.SubstProofs Proofs.ExpandInert Proofs.GateAnchorProofs Model.Cmds Model.ListExec Model.StatusThread Proofs.StatusThreadProofs.
From Cicada Require Model.Tokenizer.
Import ListNotations.
Local Open Scope N_scope.

(** The scan is the reference semantics, for every world and EVERY value (values may contain dollars,
    braces, newlines, references to themselves): one left-to-right pass, inserted text never looked at again. *)
Theorem C10_scan : forall W ps, wf_pieces ps = true -> expand_env_once W (render_pieces ps) = den_pieces W ps.
Proof. exact once_is_den. Qed.

(** Full statement: every word of the segment grammar, unquoted or double-quoted, in every world. *)
Definition C10_full : Prop :=
  forall W ps tg, wf_pieces ps = true -> tg <> TSq -> tg <> TBq ->
  expand_env W [(tg, render_pieces ps)] = [(tg, den_pieces W ps)].

(** As stated for ALL tags it stays false, now only because of DELIBERATE exemptions of the gate: the untagged token
    x='$A' (an alias definition: the user single-quoted $A, so the property itself says "never expanded") and the
    command-substitution shapes.  No finding is recorded for C10 any more. *)
Theorem C10_refuted : ~ C10_full.
Proof. exact full_refuted. Qed.
Theorem C10_refuted_exemption :
  wf_pieces ps_exempt = true /\ gate_ok ps_exempt = false /\
  render_pieces ps_exempt = [120; 61; 39; 36; 65; 39] /\ den_pieces W_v ps_exempt = [120; 61; 39; 118; 39] /\
  expand_env W_v [(TNone, render_pieces ps_exempt)] = [(TNone, render_pieces ps_exempt)].
Proof. exact exempt_witness. Qed.

(** Partial statement, at full strength in everything else: outside the exemption shapes (decidable on
    the literal characters of the word: an open paren, or an equals sign together with a backquote /
    single quote) the word becomes exactly the one-pass substitution -- every world, every value. *)
Definition Known_C10 (ps : list piece) : Prop := gate_ok ps = false.
Theorem C10_partial : forall W ps tg,
  ~ Known_C10 ps -> wf_pieces ps = true -> tg <> TSq -> tg <> TBq ->
  expand_env W [(tg, render_pieces ps)] = [(tg, den_pieces W ps)].
Proof.
  intros W ps tg H. apply partial. unfold Known_C10 in H.
  destruct (gate_ok ps); [reflexivity | exfalso; apply H; reflexivity].
Qed.

(** expand_env is modelled as the code is written -- a first loop with a hand-counted index over ALL tokens
    (quoted ones are counted, not filtered out) pushing (index, new text), then a write-back by index in
    reverse -- and PROVED to be the per-token map: each text lands on the token it was computed from. *)
Theorem C10_index_buffer : forall W toks, expand_env W toks = map (expand_env_tok W) toks.
Proof. exact expand_env_map. Qed.

(** The command-substitution exemption of the gate fires only on a word that IS one $( ... ) from its first to its
    last character (the pattern is anchored at both ends: proved from the GENERATED regex AST, so dropping the anchor in
    the source breaks this proof) ... *)
Theorem C10_gate_whole_word : forall t,
  Regex.rx_search Gen.ShellRegexes.rx_env_sub3 t = true -> exists mid, t = 36 :: 40 :: mid ++ [41].
Proof. exact sub3_whole_word. Qed.
(** ... so references FOLLOWED by a command substitution that ends the word are let through by the gate and replaced,
    the adjacent text -- the substitution -- preserved, for every world and value:  $A/$(cmd)  "$A and $(cmd)"  ${A}$(cmd). *)
Theorem C10_gate_accepts_refs_before_cmdsub : forall q ps c,
  wf_pieces ps = true -> count_refs ps <> 0%nat -> has_dollar_paren (render_pieces ps) = false ->
  ~ In 96 (render_pieces ps ++ 36 :: 40 :: c ++ [41]) ->
  (q = true \/ ~ In 39 (render_pieces ps ++ 36 :: 40 :: c ++ [41])) ->
  env_in_tagged_token (render_pieces ps ++ 36 :: 40 :: c ++ [41]) q = true.
Proof. exact gate_accepts_refs_before_cmdsub. Qed.
Theorem C10_refs_before_cmdsub : forall W tg ps c,
  (tg = TNone \/ tg = TDq) -> wf_pieces ps = true -> count_refs ps <> 0%nat ->
  has_dollar_paren (render_pieces ps) = false -> ~ In 36 c ->
  ~ In 96 (render_pieces ps ++ 36 :: 40 :: c ++ [41]) ->
  (tg = TDq \/ ~ In 39 (render_pieces ps ++ 36 :: 40 :: c ++ [41])) ->
  expand_env_tok W (tg, render_pieces ps ++ 36 :: 40 :: c ++ [41]) = (tg, den_pieces W ps ++ 36 :: 40 :: c ++ [41]).
Proof. exact expand_env_tok_refs_before_cmdsub. Qed.

(** [$?] is the World's [status]; which status that is INSIDE a command line is decided by the list loop of
    execute::run_command_line (Model/StatusThread.v: the loop with the assignment [sh.previous_status = status] after
    every executed pipeline made explicit): every executed segment is expanded under the status of the segment executed
    JUST BEFORE it (skipped && / || segments do not count), the first one under the status the line started with; and
    this loop runs the same segments with the same statuses as Model/ListExec.v (C03's model). *)
Theorem C10_status_reference : forall W, expand_env_once W [36; 63] = z_to_dec (status W)
                                     /\ expand_env_once W [36; 123; 63; 125] = z_to_dec (status W).
Proof. intros W. split; cbn; rewrite app_nil_r; reflexivity. Qed.
Theorem C10_status_is_last_executed : forall (run_proc : Z -> str -> Z) prev0 line,
  chained prev0 (s_seen (thread_line run_proc prev0 line)) /\
  s_prev (thread_line run_proc prev0 line)
  = last (map (fun x => snd x) (s_seen (thread_line run_proc prev0 line))) prev0.
Proof. exact status_seen_is_last_executed. Qed.
Theorem C10_status_loop_is_list_exec : forall (run_proc : Z -> str -> Z) line,
  let s := thread_line run_proc 0%Z line in
  let e := run_command_line Z (as_world run_proc) 0%Z line in
  map (fun x => (fst (fst x), snd x)) (s_seen s) = e_ran Z e /\ s_status s = e_status Z e.
Proof. exact thread_agrees_with_list_exec. Qed.

(** A whole line of words (tag, segment list): quoted ones unchanged, the others substituted, each
    in its place. *)
Theorem C10_line : forall W ws, Forall word_in ws -> expand_env W (map word_text ws) = map (word_den W) ws.
Proof. exact expand_env_line. Qed.

(** Unconditional: single-quoted (and backquoted) tokens are never touched, also inside a longer line. *)
Theorem C10_single_quoted : forall W toks,
  (forall t, In t toks -> fst t = TSq \/ fst t = TBq) -> expand_env W toks = toks.
Proof. exact expand_env_quoted. Qed.
Theorem C10_single_quoted_in_line : forall W pre s post,
  expand_env W (pre ++ (TSq, s) :: post) = expand_env W pre ++ (TSq, s) :: expand_env W post.
Proof. exact expand_env_keeps_sq. Qed.

(** The inputs of the six repaired findings, now computed facts about the model (regressions):
    a value is not rescanned; a self reference stays; newline, unterminated brace, digit-initial run. *)
Example C10_values_not_rescanned :
  expand_env_once (world_of [([65], [120; 36; 66]); ([66], [121])] []) [36; 65] = [120; 36; 66] /\
  expand_env_once (world_of [([65], [36; 65])] []) [36; 65] = [36; 65] /\
  expand_env_once (world_of [([65], [118])] []) [97; 10; 36; 65] = [97; 10; 118] /\
  expand_env_once (world_of [([65], [118])] []) [36; 123; 65] = [36; 123; 65] /\
  expand_env_once (world_of [([65], [118])] []) [36; 57; 120; 36; 65] = [36; 57; 120; 118].
Proof. vm_compute. repeat split. Qed.

(** Through ALL passes of do_expansion, composed with the real tokenizer: behind an inert command word,
    single-quoted tokens and dollar- and backquote-free double-quoted tokens come out unchanged, and a
    double-quoted word of the grammar comes out as ONE double-quoted token holding the substitution,
    whatever the values are, provided the RESULT has no backquote and no dollar directly followed by an
    open paren (that is all the later passes need); used by C01 / C13. *)
Theorem C10_do_expansion_inert : forall W fuel cmd l l',
  cmd_ok W cmd -> Forall2 (tok_ok W) l l' ->
  do_expansion Tokenizer.parse_line W fuel ((TNone, cmd) :: l) = Ok ((TNone, cmd) :: l').
Proof. exact do_expansion_inert. Qed.
(** ... whereas an UNTAGGED reference whose value is a pipe character becomes the untagged token | . *)
Example C10_untagged_value_is_syntax :
  do_expansion Tokenizer.parse_line (world_of [([65], [124])] []) 5 [(TNone, [101; 99; 104; 111]); (TNone, [36; 65])]
  = Ok [(TNone, [101; 99; 104; 111]); (TNone, [124])].
Proof. exact untagged_value_is_syntax. Qed.

(** Double-quoted words (since 8dc686a the gate takes the tag): a single quote is an ordinary character there, so the
    only words left out are those whose literal text has an open paren, or an equals sign together with a BACKQUOTE
    (the command-substitution shapes, whose inner line is expanded when it runs). *)
Theorem C10_double_quoted : forall W ps, wf_pieces ps = true -> gate_ok_dq ps = true ->
  expand_env W [(TDq, render_pieces ps)] = [(TDq, den_pieces W ps)].
Proof. intros W ps Hw Hg. apply partial_dq; assumption. Qed.
(** regression for 8dc686a: echo "x='$A'" with A=v *)
Example C10_exemption_dq_gone :
  expand_env_tok (world_of [([65], [118])] []) (TDq, [120; 61; 39; 36; 65; 39]) = (TDq, [120; 61; 39; 118; 39]).
Proof. exact gate_dq_expands. Qed.

Check C10_scan : forall W ps, wf_pieces ps = true -> expand_env_once W (render_pieces ps) = den_pieces W ps.
Check C10_refuted : ~ C10_full.
Check C10_partial : forall W ps tg,
  ~ Known_C10 ps -> wf_pieces ps = true -> tg <> TSq -> tg <> TBq ->
  expand_env W [(tg, render_pieces ps)] = [(tg, den_pieces W ps)].
Check C10_single_quoted : forall W toks,
  (forall t, In t toks -> fst t = TSq \/ fst t = TBq) -> expand_env W toks = toks.

(** Non-vacuity: the word  pre-$A${AB}$A_1.$?  with A = x$B<newline>'(  (dollar, newline, quote, paren in
    the VALUE), AB = "p q", A_1 unset is in the domain and expands to  pre-x$B<nl>'(p q.0 . *)
Definition ex_W := world_of [([65], [120; 36; 66; 10; 39; 40]); ([65; 66], [112; 32; 113])] [].
Definition ex_ps := map PLit [112; 114; 101; 45] ++
  [PRef false [65]; PRef true [65; 66]; PRef false [65; 95; 49]; PLit 46; PRef false [63]].
Example C10_nonvacuous :
  wf_pieces ex_ps = true /\ gate_ok ex_ps = true /\ count_refs ex_ps = 4%nat /\
  expand_env ex_W [(TDq, render_pieces ex_ps)]
  = [(TDq, [112; 114; 101; 45; 120; 36; 66; 10; 39; 40; 112; 32; 113; 46; 48])].
Proof. vm_compute. repeat split. Qed.

Print Assumptions C10_scan.
Print Assumptions C10_refuted.
Print Assumptions C10_refuted_exemption.
Print Assumptions C10_partial.
Print Assumptions C10_index_buffer.
Print Assumptions C10_gate_whole_word.
Print Assumptions C10_gate_accepts_refs_before_cmdsub.
Print Assumptions C10_refs_before_cmdsub.
Print Assumptions C10_status_reference.
Print Assumptions C10_status_is_last_executed.
Print Assumptions C10_status_loop_is_list_exec.
Print Assumptions C10_line.
Print Assumptions C10_single_quoted.
Print Assumptions C10_single_quoted_in_line.
Print Assumptions C10_do_expansion_inert.
Print Assumptions C10_double_quoted.
