(** C16 -- a line means the same at the prompt, with -c, in a script, function or source.
    Statements only; proofs in Proofs/{RerenderProofs,FoldProofs}.v (+ TokenizerProofs.v).

    The script path (script file, function body, sourced file, loop heads) sends
    every line through [expand_args] before [run_command_line]; the [-c] path
    and the prompt do not. Since 032e44d [expand_args] returns the line
    UNCHANGED unless a token needs positional expansion.

    [C16_full] (main): for every line without positional parameters and all
    script arguments, [expand_args l args = l]; hence the text handed to
    run_command_line -- and with it the list segments, token lists and plans,
    for ANY later pass -- is the one -c and the prompt hand over. No
    renderability hypothesis. The former witnesses of the refuted statement
    are kept as regression examples that now satisfy it.

    Lines WITH positional parameters are still tokenized, substituted and
    re-rendered ([C16_positional_pass]); about that rendering:
    [C16_inverse]/[C16_spaced] (tokens_to_line is a right inverse of parse_line on
    renderable tokens, any spacing), [C16_partial] (the round trip leaves the
    tokens of a renderable line unchanged), [C16_quoted] (C01 domain).

    Script files only: run_script folds continuation lines textually before
    anything else. [C16_fold_full] (a text none of whose lines asks for a
    continuation -- every newline follows an even number of backslashes -- is
    left alone) is FALSE of the code: [C16_fold_refuted] (class
    trailing-backslash). With the proposed repair (notes/C16-fix-3.patch) it
    holds for all texts: [C16_fold_fixed_full]. *)
From Cicada Require Import Base.Chars Base.Tag Model.Args Model.Tokenizer Model.Cmds Model.Redirect Model.Rerender
  Base.Regex Gen.ScriptRegexes Proofs.TokenizerProofs Proofs.RerenderProofs Proofs.FoldProofs Proofs.ScriptLinesProofs.
Local Open Scope N_scope.

Definition plan (l : str) := plan_tokens (parse_line l).

(** main theorem *)
Theorem C16_full : forall l args, no_positional l = true -> expand_args l args = XOk l.
Proof. exact expand_args_id. Qed.

(** ... hence the same list segments, tokens and plans, whatever runs afterwards *)
Theorem C16_full_any_pass : forall (X : Type) (run : str -> X) l args,
  no_positional l = true ->
  exists l', expand_args l args = XOk l' /\ run l' = run l /\
             map plan (line_to_cmds l') = map plan (line_to_cmds l).
Proof. intros X run l args H. exists l. rewrite (expand_args_id l args H). repeat split. Qed.

(** with a positional parameter: tokenize, substitute, re-render *)
Theorem C16_positional_pass : forall l args, no_positional l = false ->
  expand_args l args =
  match expand_args_in_tokens (parse_line l) args with
  | XOk toks => XOk (tokens_to_line toks) | XPanic => XPanic | XFuel => XFuel
  end.
Proof. exact expand_args_positional. Qed.

(** * The re-rendering (lines with positional parameters; C15's territory) *)
Theorem C16_inverse : forall toks,
  forallb tok_ok toks = true -> is_arithmetic (tokens_to_line toks) = false ->
  parse_line (tokens_to_line toks) = toks.
Proof. exact parse_tokens_to_line. Qed.

Theorem C16_spaced : forall (l : list (nat * token)) n t,
  all_ok l = true -> tok_ok t = true -> is_arithmetic (render_ln l n t) = false ->
  parse_line (render_ln l n t) = map snd l ++ [t].
Proof. exact parse_line_sp. Qed.

Theorem C16_partial : forall l,
  renderable l = true -> parse_line (rerender l) = parse_line l.
Proof. exact rerender_tokens. Qed.

Theorem C16_partial_plan : forall (expand : list token -> list token) l,
  renderable l = true ->
  plan_tokens (expand (parse_line (rerender l))) = plan_tokens (expand (parse_line l)).
Proof. intros expand l H. now rewrite (rerender_tokens l H). Qed.

Theorem C16_quoted : forall cmd (args : list (nat * qarg)),
  plain_word cmd = true -> forallb arith_body cmd = false ->
  forallb (fun '(_, a) => wf_qarg a) args = true ->
  parse_line (rerender (render_cmd cmd args)) = parse_line (render_cmd cmd args).
Proof. exact rerender_quoted. Qed.

Check C16_full : forall l args, no_positional l = true -> expand_args l args = XOk l.
Check C16_partial : forall l, renderable l = true -> parse_line (rerender l) = parse_line l.

(** * Regression examples: the witnesses that refuted the statement before 032e44d.
    Each is positional-free, the bare round trip still changes its segments'
    plans, and the script path now leaves it alone. *)
Definition regression (l : str) : Prop :=
  no_positional l = true /\
  map plan (line_to_cmds (rerender l)) <> map plan (line_to_cmds l) /\
  expand_args l [] = XOk l.

(* echo a\;b *)
Definition w_esc_op : str := [101;99;104;111;32;97;92;59;98].
(* echo a\ b *)
Definition w_esc_blank : str := [101;99;104;111;32;97;92;32;98].
(* echo a\#b *)
Definition w_esc_hash : str := [101;99;104;111;32;97;92;35;98].
(* echo 'a';echo b *)
Definition w_glue : str := [101;99;104;111;32;39;97;39;59;101;99;104;111;32;98].
(* true||echo b *)
Definition w_orglue : str := [116;114;117;101;124;124;101;99;104;111;32;98].
(* (a;b) *)
Definition w_paren : str := [40;97;59;98;41].

Ltac regression_tac := split; [vm_compute; reflexivity|split; [vm_compute; discriminate|vm_compute; reflexivity]].
Example C16_regression_esc_op : regression w_esc_op. Proof. regression_tac. Qed.
Example C16_regression_esc_blank : regression w_esc_blank. Proof. regression_tac. Qed.
Example C16_regression_esc_hash : regression w_esc_hash. Proof. regression_tac. Qed.
Example C16_regression_glue : regression w_glue. Proof. regression_tac. Qed.
Example C16_regression_orglue : regression w_orglue. Proof. regression_tac. Qed.
Example C16_regression_paren : regression w_paren. Proof. regression_tac. Qed.

(** Non-vacuity:  prog 'a|b;c' DQ x \DQ > y  & DQ   > out ; next $V || z   (DQ = the double quote)
    has no positional parameter (so [C16_full] applies), is renderable with 10 tokens
    (so [C16_partial] applies), and the bare round trip does change its text;
    echo $1 a  is a line the pass does rewrite. *)
Example C16_nonvacuous :
  let l := [112;114;111;103;32;39;97;124;98;59;99;39;32;34;120;32;92;34;32;62;32;121;32;32;38;34;
            32;32;32;62;32;111;117;116;32;59;32;110;101;120;116;32;36;86;32;124;124;32;122] in
  no_positional l = true /\ renderable l = true /\ length (parse_line l) = 10%nat /\ rerender l <> l /\
  no_positional [101;99;104;111;32;36;49;32;97] = false /\
  expand_args [101;99;104;111;32;36;49;32;97] [[115]; [120;32;121]] = XOk [101;99;104;111;32;120;32;121;32;97].
Proof. vm_compute. repeat split. discriminate. Qed.

(** * Continuation folding in script files *)
Definition C16_fold_full : Prop := forall t, no_cont t = true -> fold_lines t = t.

(* echo a\\ NL b NL : two lines, the first ends in an ESCAPED backslash; folded into  echo a\b *)
Definition w_fold : str := [101;99;104;111;32;97;92;92;10;98;10].

Theorem C16_fold_refuted : ~ C16_fold_full.
Proof. intros H. specialize (H w_fold eq_refl). vm_compute in H. discriminate. Qed.

Example C16_fold_witness : no_cont w_fold = true /\ fold_lines w_fold = [101;99;104;111;32;97;92;98;10].
Proof. vm_compute. split; reflexivity. Qed.

Theorem C16_fold_fixed_full : forall t, no_cont t = true -> fold_lines_fixed t = t.
Proof. exact fold_fixed_id. Qed.

(** the repair keeps genuine continuations:  echo a \ NL (2 blanks) b NL  ->  echo a b NL ,
    and  a\\\ NL b  (three backslashes: escaped backslash + continuation) -> a\\b *)
Example C16_fold_fixed_still_folds :
  fold_lines_fixed [101;99;104;111;32;97;32;92;10;32;32;98;10] = [101;99;104;111;32;97;32;98;10] /\
  fold_lines [101;99;104;111;32;97;32;92;10;32;32;98;10] = [101;99;104;111;32;97;32;98;10] /\
  fold_lines_fixed [97;92;92;92;10;98] = [97;92;92;98] /\
  fold_lines_fixed w_fold = w_fold.
Proof. vm_compute. repeat split. Qed.

(** * run_script's per-line loop (function extraction; model Model/Args.v, owned by C15):
    a line that is neither a function head nor a lone closing brace reaches the
    script parser / the function body character for character -- in particular a
    line with a hash inside quotes is not cut -- so [expand_args] and then
    run_command_line see exactly what -c sees. *)
Theorem C16_func_tail_is_source_regex : forall s, func_tail s = rx_search rx_func_tail s.
Proof. exact func_tail_is_source_regex. Qed.

(** hypotheses read on the pattern GENERATED from scripting.rs ([rx_func_tail]): a line is plain when
    its trimmed text is not a function head and the source's closing-brace pattern does not match it *)
Theorem C16_lines_reach_parser : forall ls, forallb plain_line_src ls = true ->
  extract_funcs ls false [] [] [] [] = ([], join_nl ls).
Proof. exact lines_reach_parser_src. Qed.

Theorem C16_body_lines_reach_function : forall h nm ls t rest enter name0 body0 funcs tn,
  func_head (trim h) = Some nm -> forallb plain_line_src ls = true ->
  func_head (trim t) = None -> rx_search rx_func_tail (trim t) = true ->
  extract_funcs (h :: ls ++ t :: rest) enter name0 body0 funcs tn =
  extract_funcs rest false nm (join_nl ls) (funcs ++ [(nm, join_nl ls)]) tn.
Proof. exact body_lines_reach_function_src. Qed.

(** lines that END in a closing brace are plain: only a line that IS a brace (after trim) closes a body.
    prog x{a,b}   prog pre-${V}   prog a }   (and the two quote+hash witnesses below) *)
Example C16_brace_end_lines_are_plain :
  forallb plain_line_src [[112;114;111;103;32;120;123;97;44;98;125]; [112;114;111;103;32;112;114;101;45;36;123;86;125];
                          [112;114;111;103;32;97;32;125]; [32;32;112;114;111;103;32;123;49;46;46;51;125;32]] = true /\
  plain_line_src [32;125;32;9] = false.
Proof. vm_compute. split; reflexivity. Qed.

(* prog DQ it's #1 DQ x   and   prog 'say DQ hi #2' && echo ok   (DQ = the double quote): as a script
   and as the body of  function ff {  ...  }  followed by the call  ff *)
Definition w_qh1 : str := [112;114;111;103;32;34;105;116;39;115;32;35;49;34;32;120].
Definition w_qh2 : str := [112;114;111;103;32;39;115;97;121;32;34;104;105;32;35;50;39;32;38;38;32;101;99;104;111;32;111;107].
Example C16_quote_hash_lines :
  plain_line_src w_qh1 = true /\ plain_line_src w_qh2 = true /\
  function_table (w_qh1 ++ [c_nl] ++ w_qh2 ++ [c_nl]) = ([], w_qh1 ++ [c_nl] ++ w_qh2 ++ [c_nl]) /\
  function_table ([102;117;110;99;116;105;111;110;32;102;102;32;123;10] ++ w_qh1 ++ [10;125;10;102;102;10]) =
    ([([102;102], w_qh1 ++ [c_nl])], [102;102;10]) /\
  expand_args w_qh1 [] = XOk w_qh1 /\ expand_args w_qh2 [[115]; [97]] = XOk w_qh2.
Proof. vm_compute. repeat split. Qed.

Print Assumptions C16_full.
Print Assumptions C16_full_any_pass.
Print Assumptions C16_positional_pass.
Print Assumptions C16_inverse.
Print Assumptions C16_spaced.
Print Assumptions C16_partial.
Print Assumptions C16_partial_plan.
Print Assumptions C16_quoted.
Print Assumptions C16_fold_refuted.
Print Assumptions C16_fold_fixed_full.
Print Assumptions C16_lines_reach_parser.
Print Assumptions C16_body_lines_reach_function.
Print Assumptions C16_func_tail_is_source_regex.
(** Round 9 (regexgen): the positional-parameter test of the model IS the regex of scripting::is_args_in_token
    (dollar, optional brace, digits or at-signs, optional brace, searched anywhere in the token): equal on every text to
    the search of the AST regenerated from scripting.rs on every run (Gen/ScriptArgsRegexes.v). *)
From Cicada Require Gen.ScriptArgsRegexes Proofs.ArgsRegexProofs.
Theorem C16_args_in_token_is_source_regex : forall s,
  Args.is_args_in_token s = Regex.rx_search Gen.ScriptArgsRegexes.rx_args_in_token s.
Proof. exact Proofs.ArgsRegexProofs.is_args_in_token_is_source_regex. Qed.
Check C16_args_in_token_is_source_regex : forall s,
  Args.is_args_in_token s = Regex.rx_search Gen.ScriptArgsRegexes.rx_args_in_token s.
Example C16_args_regex_nonvacuous :
  Regex.rx_search Gen.ScriptArgsRegexes.rx_args_in_token [97;36;123;49;125]%N = true /\
  Regex.rx_search Gen.ScriptArgsRegexes.rx_args_in_token [36;64]%N = true /\
  Regex.rx_search Gen.ScriptArgsRegexes.rx_args_in_token [36;123;97]%N = false /\
  Regex.rx_search Gen.ScriptArgsRegexes.rx_args_in_token [36;97]%N = false.
Proof. vm_compute. repeat split. Qed.
Print Assumptions C16_args_in_token_is_source_regex.
