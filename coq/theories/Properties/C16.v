(** C16 -- a line means the same at the prompt, with -c, in a script, function or source.
    Statements only; proofs in Proofs/RerenderProofs.v (+ TokenizerProofs.v).

    The script path (script file, function body, sourced file, loop heads) sends
    every line through [expand_args] = parse_line -> expand_args_in_tokens ->
    tokens_to_line before [run_command_line]; the [-c] path and the prompt do not.
    For a line without positional parameters the pass is exactly
    [rerender = tokens_to_line o parse_line] ([C16_script_pass]).

    Status. [C16_full] (the round trip preserves the plan of every list segment) is
    FALSE of the code: [C16_refuted] and the witnesses [C16_refuted_*], one per
    mechanism (classes of known_findings.txt). Proved, unbounded:
    [C16_inverse]/[C16_spaced]: tokens_to_line is a right inverse of parse_line
    on renderable tokens (unquoted words, bar tokens, single-quoted texts, double-
    quoted texts with escapes), for any spacing; [C16_partial]: the round trip
    leaves the tokens -- hence the plan, for every later pass -- of a renderable
    line unchanged; [C16_quoted]: instance on the whole C01 domain;
    [C16_fixed_full]: with the proposed repair (notes/C16-fix-1.patch) the pass is
    the identity on every positional-free line, so the full statement holds.
    NOT proved: that list splitting (line_to_cmds) commutes with the round trip
    outside the failing classes; that is carried by the correspondence check
    (exhaustive short lines: outside [known_c16] the law holds on the
    implementation's own output). *)
From Cicada Require Import Base.Chars Base.Tag Model.Tokenizer Model.Cmds Model.Redirect Model.Rerender
  Proofs.TokenizerProofs Proofs.RerenderProofs.
Local Open Scope N_scope.

Definition plan (l : str) := plan_tokens (parse_line l).

Definition C16_full : Prop := forall l,
  no_positional l = true -> is_complete l = true ->
  map plan (line_to_cmds (rerender l)) = map plan (line_to_cmds l).

(** the script path's pass on a positional-free line is the round trip *)
Theorem C16_script_pass : forall l args,
  no_positional l = true -> expand_args l args = XOk (rerender l).
Proof. exact expand_args_rerender. Qed.

(** tokens_to_line is a right inverse of parse_line on renderable tokens *)
Theorem C16_inverse : forall toks,
  forallb tok_ok toks = true -> is_arithmetic (tokens_to_line toks) = false ->
  parse_line (tokens_to_line toks) = toks.
Proof. exact parse_tokens_to_line. Qed.

(** ... and so is every other spacing of the same tokens *)
Theorem C16_spaced : forall (l : list (nat * token)) n t,
  all_ok l = true -> tok_ok t = true -> is_arithmetic (render_ln l n t) = false ->
  parse_line (render_ln l n t) = map snd l ++ [t].
Proof. exact parse_line_sp. Qed.

(** main theorem: the round trip is the identity on the tokens of a renderable line *)
Theorem C16_partial : forall l,
  renderable l = true -> parse_line (rerender l) = parse_line l.
Proof. exact rerender_tokens. Qed.

Theorem C16_partial_plan : forall (expand : list token -> list token) l,
  renderable l = true ->
  plan_tokens (expand (parse_line (rerender l))) = plan_tokens (expand (parse_line l)).
Proof. intros expand l H. now rewrite (rerender_tokens l H). Qed.

(** the C01 domain: plain command word, single-/double-quoted arguments, any spacing *)
Theorem C16_quoted : forall cmd (args : list (nat * qarg)),
  plain_word cmd = true -> forallb arith_body cmd = false ->
  forallb (fun '(_, a) => wf_qarg a) args = true ->
  parse_line (rerender (render_cmd cmd args)) = parse_line (render_cmd cmd args).
Proof. exact rerender_quoted. Qed.

(** with the proposed repair the pass leaves a positional-free line alone *)
Theorem C16_fixed_full : forall l args,
  no_positional l = true ->
  exists l', expand_args_fixed l args = XOk l' /\
             map plan (line_to_cmds l') = map plan (line_to_cmds l).
Proof. intros l args H. exists l. split; [now apply expand_args_fixed_id|reflexivity]. Qed.

Check C16_partial : forall l, renderable l = true -> parse_line (rerender l) = parse_line l.
Check C16_inverse : forall toks,
  forallb tok_ok toks = true -> is_arithmetic (tokens_to_line toks) = false ->
  parse_line (tokens_to_line toks) = toks.

(** * Refutation of the full statement, one witness per mechanism.
    Each line is complete, has no positional parameter, and the tokens of its
    list segments differ after the round trip. *)
Definition differs (l : str) : Prop :=
  no_positional l = true /\ is_complete l = true /\
  map plan (line_to_cmds (rerender l)) <> map plan (line_to_cmds l).

(* echo a\;b  becomes  echo a;b : two commands *)
Definition w_esc_op : str := [101;99;104;111;32;97;92;59;98].
(* echo a\ b  becomes  echo a b : two arguments *)
Definition w_esc_blank : str := [101;99;104;111;32;97;92;32;98].
(* echo a\#b  becomes  echo a#b : line_to_cmds cuts at the hash *)
Definition w_esc_hash : str := [101;99;104;111;32;97;92;35;98].
(* echo 'a';echo b  becomes  echo 'a;echo' b *)
Definition w_glue : str := [101;99;104;111;32;39;97;39;59;101;99;104;111;32;98].
(* true||echo b  becomes  true | | echo b *)
Definition w_orglue : str := [116;114;117;101;124;124;101;99;104;111;32;98].
(* (a;b) *)
Definition w_paren : str := [40;97;59;98;41].

Ltac differs_tac := repeat split; try (vm_compute; reflexivity); vm_compute; discriminate.

Theorem C16_refuted_esc_op : differs w_esc_op /\ rerender w_esc_op = [101;99;104;111;32;97;59;98].
Proof. split; [differs_tac|vm_compute; reflexivity]. Qed.
Theorem C16_refuted_esc_blank : differs w_esc_blank.
Proof. differs_tac. Qed.
Theorem C16_refuted_esc_hash : differs w_esc_hash.
Proof. differs_tac. Qed.
Theorem C16_refuted_glue : differs w_glue.
Proof. differs_tac. Qed.
Theorem C16_refuted_orglue : differs w_orglue.
Proof. differs_tac. Qed.
Theorem C16_refuted_paren : differs w_paren.
Proof. differs_tac. Qed.

Theorem C16_refuted : ~ C16_full.
Proof.
  intros H. destruct C16_refuted_esc_op as [(Hp & Hc & Hd) _]. exact (Hd (H _ Hp Hc)).
Qed.

(** every witness lies in its class of [known_c16] *)
Example C16_witness_classes :
  k_esc (c16_classes w_esc_op) = true /\ k_esc (c16_classes w_esc_blank) = true /\
  k_esc (c16_classes w_esc_hash) = true /\ k_glue (c16_classes w_glue) = true /\
  k_orglue (c16_classes w_orglue) = true /\ k_paren (c16_classes w_paren) = true.
Proof. vm_compute. repeat split. Qed.

(** Non-vacuity of [C16_partial]:
    prog 'a|b;c' DQ x \DQ > y  & DQ   > out ; next $V || z   (DQ = the double quote)
    is renderable, outside every class, and has 10 tokens. *)
Example C16_nonvacuous :
  let l := [112;114;111;103;32;39;97;124;98;59;99;39;32;34;120;32;92;34;32;62;32;121;32;32;38;34;
            32;32;32;62;32;111;117;116;32;59;32;110;101;120;116;32;36;86;32;124;124;32;122] in
  renderable l = true /\ known_c16 l = false /\ length (parse_line l) = 10%nat /\
  rerender l <> l.
Proof. vm_compute. repeat split. discriminate. Qed.

Print Assumptions C16_script_pass.
Print Assumptions C16_inverse.
Print Assumptions C16_spaced.
Print Assumptions C16_partial.
Print Assumptions C16_partial_plan.
Print Assumptions C16_quoted.
Print Assumptions C16_fixed_full.
Print Assumptions C16_refuted.
Print Assumptions C16_refuted_glue.
Print Assumptions C16_refuted_orglue.
