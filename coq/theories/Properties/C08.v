(* C08 -- running commands never leaks descriptors, in the shell or into children.
   Model: Model/OsLite.v + Model/Pipeline.v (run_pipeline of core.rs as of /repo 567a7de).
   [v0] is the code as it is; the other values of [variant] are the proposed repairs
   notes/C08-fix-2..5.patch, notes/C04-fix-2.patch.  The theorems quantify over every variant, so
   they are about the code as it is (instantiate v := v0) AND about each repaired version. *)
From Coq Require Import List Arith Bool Lia.
From Cicada Require Import Model.OsLite Model.Pipeline Proofs.OsLiteProofs Proofs.PipelineProofs Proofs.ChildProofs.
Import ListNotations.

Definition nf (_ : nat) := false.
Definition yes (_ : nat) := true.
Definition sh0 := mkp t_std [].
Definition ext := mks FNone [] KExt [].

(* ---------------- the full statement ---------------- *)
(* every exec'd stage holds 0 1 2 and, above 2, exactly what the shell had without close-on-exec *)
Definition kid_clean (T0 : table) (k : kid) : Prop :=
  k_out k = OExec ->
  (forall x, x < 3 -> exists o, lookup (tab (k_proc k)) x = Some (o, false)) /\
  (forall x, 3 <= x -> lookup (tab (k_proc k)) x = drop_cx (lookup T0 x)).
Definition run_clean (v : variant) (fail_at openable : nat -> bool) (pl : plan) (sh : proc) : Prop :=
  let r := run_pipeline v fail_at openable pl sh in
  teq_tab (res_shell r) (tab sh) /\ Forall (kid_clean (tab sh)) (res_kids r).
Definition C08_full : Prop :=
  forall fail_at openable pl sh, run_clean v0 fail_at openable pl sh.

(* ---------------- the remaining classes, as decidable predicates ---------------- *)
(* stage classes: a dup()ed descriptor left open (2>&1 on an uncaptured last stage, 1>&2 unless captured last);
   a captured last stage with a file redirection keeps the capture-pipe ends *)
Definition Known_C08_child (v : variant) (capture last : bool) (st : stage) : bool :=
  negb (clean v capture last (s_redirs st)).
(* shell classes: a builtin run in the shell itself; a failing capture pipe() with stage pipes *)
Definition Known_C08_shell (v : variant) (fail_at : nat -> bool) (pl : plan) : bool :=
  is_single_builtin pl
  || (capture_fails fail_at pl && negb (length (p_stages pl) =? 1) && negb (v_capfail v)).

Lemma existsb_split : forall (A : Type) (f g : A -> bool) (c1 c2 : bool) l,
  existsb (fun r => f r && c1 || g r && c2) l = existsb f l && c1 || existsb g l && c2.
Proof.
  induction l as [|x r IH]; [reflexivity|]. cbn [existsb]. rewrite IH.
  destruct (f x), (g x), c1, c2, (existsb f r), (existsb g r); reflexivity.
Qed.
Lemma existsb_andc : forall (A : Type) (f : A -> bool) (c : bool) l,
  existsb (fun r => f r && c) l = existsb f l && c.
Proof.
  induction l as [|x r IH]; [reflexivity|]. cbn [existsb]. rewrite IH.
  destruct (f x), c, (existsb f r); reflexivity.
Qed.
Lemma Known_C08_child_classes : forall v capture last st,
  Known_C08_child v capture last st = known_dupleak v last capture st || known_capredir v last capture st.
Proof.
  intros. unfold Known_C08_child, clean, known_dupleak, known_capredir, dirty.
  rewrite has12_file.
  rewrite (existsb_split _ (fun r => is_dup21 r && negb (negb last)) is_dup12 (negb capture) (negb last || negb capture)).
  rewrite (existsb_andc _ is_dup21 (negb (negb last))).
  destruct (v_dupclose v), (v_capclose v), last, capture, (existsb is_dup21 (s_redirs st)),
    (existsb is_dup12 (s_redirs st)), (existsb is_file_redir (s_redirs st)); reflexivity.
Qed.

(* ---------------- what holds for every n, every initial table, every variant ---------------- *)
Theorem C08_shell : forall v fail_at openable pl sh,
  Known_C08_shell v fail_at pl = false ->
  let r := run_pipeline v fail_at openable pl sh in
  teq_tab (res_shell r) (tab sh) /\ (res_error r = false -> length (res_kids r) = length (p_stages pl)).
Proof.
  intros v fail_at openable pl sh K. unfold Known_C08_shell in K.
  apply orb_false_iff in K. destruct K as (K1 & K2).
  apply shell_restored; auto.
  intro CF. rewrite CF in K2. cbn [andb] in K2. apply andb_false_iff in K2. destruct K2 as [K2|K2].
  - left. apply negb_false_iff in K2. apply Nat.eqb_eq in K2. exact K2.
  - right. apply negb_false_iff in K2. exact K2.
Qed.
Check C08_shell : forall v fail_at openable pl sh,
  Known_C08_shell v fail_at pl = false ->
  let r := run_pipeline v fail_at openable pl sh in
  teq_tab (res_shell r) (tab sh) /\ (res_error r = false -> length (res_kids r) = length (p_stages pl)).

(* every stage of every pipeline: outside the two leak classes an exec'd stage has exactly 0 1 2 plus
   what the shell itself had open without close-on-exec -- no pipe end of another stage, no capture
   pipe, no redirect target, no here-string pipe *)
Theorem C08_children : forall v fail_at openable pl sh i0 o0 e0,
  std_ok (tab sh) i0 o0 e0 -> is_single_builtin pl = false ->
  let r := run_pipeline v fail_at openable pl sh in
  res_error r = false ->
  kids_ok (fun idx st k =>
             Known_C08_child v (p_capture pl) (idx =? length (p_stages pl) - 1) st = false -> kid_clean (tab sh) k)
          0 (p_stages pl) (res_kids r).
Proof.
  intros v fail_at openable pl sh i0 o0 e0 SO NB r NE.
  eapply kids_ok_impl; [|apply (pipeline_kids v openable fail_at pl sh i0 o0 e0 SO NB NE)].
  cbn beta. intros idx st k KS KN HE. unfold Known_C08_child in KN. apply negb_false_iff in KN. split.
  - destruct (kid_std_fds _ _ _ _ _ _ _ _ _ _ _ KS HE) as (A & B & C).
    intros x Hx. destruct x as [|[|[|x]]]; [eexists; exact A | eexists; exact B | eexists; exact C | lia].
  - eapply kid_clean_above; eauto.
Qed.
Check C08_children : forall v fail_at openable pl sh i0 o0 e0,
  std_ok (tab sh) i0 o0 e0 -> is_single_builtin pl = false ->
  let r := run_pipeline v fail_at openable pl sh in
  res_error r = false ->
  kids_ok (fun idx st k =>
             Known_C08_child v (p_capture pl) (idx =? length (p_stages pl) - 1) st = false -> kid_clean (tab sh) k)
          0 (p_stages pl) (res_kids r).

(* descriptor exhaustion in the up-front loop *)
Theorem C08_emfile : forall v fail_at openable pl sh k,
  k < length (p_stages pl) - 1 -> fail_at k = true ->
  let r := run_pipeline v fail_at openable pl sh in
  res_error r = true /\ res_kids r = [] /\ teq_tab (res_shell r) (tab sh).
Proof. exact emfile_upfront. Qed.
Check C08_emfile : forall v fail_at openable pl sh k,
  k < length (p_stages pl) - 1 -> fail_at k = true ->
  let r := run_pipeline v fail_at openable pl sh in
  res_error r = true /\ res_kids r = [] /\ teq_tab (res_shell r) (tab sh).

(* ---------------- refutations of the full statement on the code as it is ---------------- *)
Definition kid0 (r : result) := hd (mkkid 0 sh0 OExec) (res_kids r).
Definition p_dup := mkplan [mks FNone [mkr F2 false TAmp1] KExt []] false.
Definition p_bcap := mkplan [mks FNone [] KBuiltin [true]] true.
Definition p_capredir := mkplan [mks FNone [mkr F1 false (TFile 5)] KExt []] true.
Definition p_look := mkplan [mks FNone [mkr F1 false TAmp2; mkr F1 false (TFile 5)] KBuiltin [true]] false.
(* prog 2>&1 : the dup()ed descriptor 3 stays open in prog *)
Example C08_refuted_dup : lookup (tab (k_proc (kid0 (run_pipeline v0 nf yes p_dup sh0)))) 3 = Some (OInh 1, false).
Proof. vm_compute. reflexivity. Qed.
(* echo $(alias) : the four capture-pipe ends stay open in the shell *)
Example C08_refuted_builtin_capture :
  map (lookup (tab (res_shell (run_pipeline v0 nf yes p_bcap sh0)))) [3; 4; 5; 6]
  = [Some (OPipeR PCapOut, false); Some (OPipeW PCapOut, false); Some (OPipeR PCapErr, false); Some (OPipeW PCapErr, false)].
Proof. vm_compute. reflexivity. Qed.
(* echo $(prog > f) : prog keeps both ends of the stdout capture pipe *)
Example C08_refuted_capredir :
  map (lookup (tab (k_proc (kid0 (run_pipeline v0 nf yes p_capredir sh0))))) [3; 4]
  = [Some (OPipeR PCapOut, false); Some (OPipeW PCapOut, false)].
Proof. vm_compute. reflexivity. Qed.
(* alias 1>&2 > f : the look-ahead call of _get_std_fds opens f and never closes it *)
Example C08_refuted_builtin_lookahead :
  lookup (tab (res_shell (run_pipeline v0 nf yes p_look sh0))) 3 = Some (OFile 5 MTrunc, true).
Proof. vm_compute. reflexivity. Qed.
(* echo $(a | b) when the first capture pipe() fails: the stage pipe 3,4 is not released *)
Example C08_refuted_capture_fail :
  let r := run_pipeline v0 (fun k => Nat.eqb k 1) yes (mkplan [ext; ext] true) sh0 in
  res_error r = true /\ map (lookup (tab (res_shell r))) [3; 4] = [Some (OPipeR (PStage 0), false); Some (OPipeW (PStage 0), false)].
Proof. vm_compute. split; reflexivity. Qed.

Theorem C08_refuted : ~ C08_full.
Proof.
  intro H. specialize (H nf yes p_dup sh0).
  destruct H as (_ & K). vm_compute in K. inversion K as [|k ks HK _]; subst.
  destruct (HK eq_refl) as (_ & HK3). specialize (HK3 3 (le_n 3)). vm_compute in HK3. discriminate.
Qed.

(* the proposed repairs remove the witnesses (the first two are instances of C08_children / C08_shell
   at the repaired variant; the builtin ones are computed) *)
Example C08_repairs :
  lookup (tab (k_proc (kid0 (run_pipeline (mkv true false false false false) nf yes p_dup sh0)))) 3 = None /\
  map (lookup (tab (res_shell (run_pipeline (mkv false true false false false) nf yes p_bcap sh0)))) [3; 4; 5; 6] = [None; None; None; None] /\
  map (lookup (tab (k_proc (kid0 (run_pipeline (mkv false false true false false) nf yes p_capredir sh0))))) [3; 4] = [None; None] /\
  map (lookup (tab (res_shell (run_pipeline (mkv false false false true false) (fun k => Nat.eqb k 1) yes (mkplan [ext; ext] true) sh0)))) [3; 4] = [None; None] /\
  res_error (run_pipeline (mkv false false false false true) nf (fun p => negb (Nat.eqb p 5)) (mkplan [mks FNone [mkr F1 false (TFile 5)] KBuiltin [true]] false) sh0) = true.
Proof. vm_compute. repeat split; reflexivity. Qed.

(* non-vacuity: a 3-stage pipeline with here-string and redirections from an initial table with a hole *)
Example C08_nonvacuous :
  let pl := mkplan [ext; mks FHere [mkr F1 true (TFile 4)] KExt []; mks FNone [mkr F2 false (TFile 6)] KExt []] false in
  let sh := mkp [Some (OInh 0, false); Some (OInh 1, false); Some (OInh 2, false); None; Some (OInh 4, true)] [] in
  Known_C08_shell v0 nf pl = false /\
  map (fun st => Known_C08_child v0 false false st) (p_stages pl) = [false; false; false] /\
  map (fun k => (k_out k, map (obj_at (tab (k_proc k))) [0; 1; 2; 3; 4; 5])) (res_kids (run_pipeline v0 nf yes pl sh))
  = [(OExec, [Some (OInh 0); Some (OPipeW (PStage 0)); Some (OInh 2); None; None; None]);
     (OExec, [Some (OPipeR (PHere 1)); Some (OFile 4 MAppend); Some (OInh 2); None; None; None]);
     (OExec, [Some (OPipeR (PStage 1)); Some (OInh 1); Some (OFile 6 MTrunc); None; None; None])].
Proof. vm_compute. repeat split; reflexivity. Qed.

Print Assumptions C08_shell.
Print Assumptions C08_children.
Print Assumptions C08_emfile.
Print Assumptions C08_refuted.
