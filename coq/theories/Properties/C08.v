(* C08 -- running commands never leaks descriptors, in the shell or into children.
   Model: Model/OsLite.v + Model/Pipeline.v (run_pipeline of core.rs, both as it is and as repaired
   by notes/C02-fix-1.patch: parameter fixed). *)
From Coq Require Import List Arith Bool.
From Cicada Require Import Model.OsLite Model.Pipeline Proofs.OsLiteProofs Proofs.PipelineProofs.
Import ListNotations.

(* what the property demands of one run: the shell's table is what it was (same numbers, same
   objects), and every exec'd stage holds, above 2, exactly what the shell had without close-on-exec *)
Definition kid_clean (T0 : table) (k : kid) : Prop :=
  k_out k = OExec -> forall x, 3 <= x -> lookup (tab (k_proc k)) x = drop_cx (lookup T0 x).
Definition run_clean (fixed : bool) (fail_at openable : nat -> bool) (pl : plan) (sh : proc) : Prop :=
  let r := run_pipeline fixed fail_at openable pl sh in
  teq_tab (res_shell r) (tab sh) /\ Forall (kid_clean (tab sh)) (res_kids r).
Definition C08_full : Prop :=
  forall fail_at openable pl sh, run_clean false fail_at openable pl sh.

Definition nf (_ : nat) := false.
Definition yes (_ : nat) := true.
Definition sh0 := mkp t_std [].
Definition ext := mks FNone [] KExt [].

(* --- refutations: one witness per recorded class (each reproduced on the real binary) --- *)
(* prog 2>&1 : the dup()ed descriptor 3 stays open in prog *)
Example C08_refuted_dup :
  lookup (tab (k_proc (hd (mkkid 0 sh0 OExec)
     (res_kids (run_pipeline false nf yes (mkplan [mks FNone [mkr F2 false TAmp1] KExt []] false) sh0))))) 3
  = Some (OInh 1, false).
Proof. vm_compute. reflexivity. Qed.
(* echo $(alias) : the four capture-pipe ends stay open in the shell *)
Example C08_refuted_builtin_capture :
  map (lookup (tab (res_shell (run_pipeline false nf yes (mkplan [mks FNone [] KBuiltin [true]] true) sh0)))) [3; 4; 5; 6]
  = [Some (OPipeR PCapOut, false); Some (OPipeW PCapOut, false); Some (OPipeR PCapErr, false); Some (OPipeW PCapErr, false)].
Proof. vm_compute. reflexivity. Qed.
(* echo $(prog > f) : prog keeps both ends of the stdout capture pipe *)
Example C08_refuted_capredir :
  map (lookup (tab (k_proc (hd (mkkid 0 sh0 OExec)
     (res_kids (run_pipeline false nf yes (mkplan [mks FNone [mkr F1 false (TFile 5)] KExt []] true) sh0)))))) [3; 4]
  = [Some (OPipeR PCapOut, false); Some (OPipeW PCapOut, false)].
Proof. vm_compute. reflexivity. Qed.
(* alias 1>&2 > f : the look-ahead call of _get_std_fds opens f and never closes it *)
Example C08_refuted_builtin_lookahead :
  lookup (tab (res_shell (run_pipeline false nf yes
     (mkplan [mks FNone [mkr F1 false TAmp2; mkr F1 false (TFile 5)] KBuiltin [true]] false) sh0))) 3
  = Some (OFile 5 MTrunc, true).
Proof. vm_compute. reflexivity. Qed.
(* echo $(a | b) when the first capture pipe() fails: the stage pipe 3,4 is not released *)
Example C08_refuted_capture_fail :
  let r := run_pipeline false (fun k => Nat.eqb k 1) yes (mkplan [ext; ext] true) sh0 in
  res_error r = true /\ map (lookup (tab (res_shell r))) [3; 4] = [Some (OPipeR (PStage 0), false); Some (OPipeW (PStage 0), false)].
Proof. vm_compute. split; reflexivity. Qed.

Theorem C08_refuted : ~ C08_full.
Proof.
  intro H. specialize (H nf yes (mkplan [mks FNone [mkr F2 false TAmp1] KExt []] false) sh0).
  destruct H as (_ & K). vm_compute in K. inversion K as [|k ks HK _]; subst.
  specialize (HK eq_refl 3 (le_n 3)). vm_compute in HK. discriminate.
Qed.

(* --- what holds, for every number of stages, every initial table, both variants of the code --- *)
(* the classes in which the SHELL's table is not restored *)
Definition Known_C08_shell (fail_at : nat -> bool) (pl : plan) : bool :=
  is_single_builtin pl                                       (* builtin run in the shell itself *)
  || (capture_fails fail_at pl && negb (length (p_stages pl) =? 1)).   (* capture pipe() fails, n > 1 *)

Theorem C08_shell : forall fixed fail_at openable pl sh,
  Known_C08_shell fail_at pl = false ->
  let r := run_pipeline fixed fail_at openable pl sh in
  teq_tab (res_shell r) (tab sh) /\ (res_error r = false -> length (res_kids r) = length (p_stages pl)).
Proof.
  intros fixed fail_at openable pl sh K. unfold Known_C08_shell in K.
  apply Bool.orb_false_iff in K. destruct K as (K1 & K2).
  apply shell_restored; auto.
  intro CF. rewrite CF in K2. cbn in K2. apply Bool.negb_false_iff in K2. apply Nat.eqb_eq in K2. exact K2.
Qed.
Check C08_shell : forall fixed fail_at openable pl sh,
  Known_C08_shell fail_at pl = false ->
  let r := run_pipeline fixed fail_at openable pl sh in
  teq_tab (res_shell r) (tab sh) /\ (res_error r = false -> length (res_kids r) = length (p_stages pl)).

(* descriptor exhaustion in the up-front loop: for EVERY failure point everything created is released,
   nothing is forked and the result is an error *)
Theorem C08_emfile : forall fixed fail_at openable pl sh k,
  k < length (p_stages pl) - 1 -> fail_at k = true ->
  let r := run_pipeline fixed fail_at openable pl sh in
  res_error r = true /\ res_kids r = [] /\ teq_tab (res_shell r) (tab sh).
Proof. exact emfile_upfront. Qed.
Check C08_emfile : forall fixed fail_at openable pl sh k,
  k < length (p_stages pl) - 1 -> fail_at k = true ->
  let r := run_pipeline fixed fail_at openable pl sh in
  res_error r = true /\ res_kids r = [] /\ teq_tab (res_shell r) (tab sh).

(* non-vacuity: a 3-stage pipeline with a here-string and redirections, initial table with a hole *)
Example C08_shell_nonvacuous :
  let pl := mkplan [ext; mks FHere [mkr F2 false TAmp1] KExt []; mks FNone [mkr F1 true (TFile 4)] KExt []] false in
  Known_C08_shell nf pl = false /\
  length (res_kids (run_pipeline false nf yes pl (mkp [Some (OInh 0, false); Some (OInh 1, false); Some (OInh 2, false); None; Some (OInh 4, true)] []))) = 3.
Proof. vm_compute. split; reflexivity. Qed.

Print Assumptions C08_shell.
Print Assumptions C08_emfile.
Print Assumptions C08_refuted.
