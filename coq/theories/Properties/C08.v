(* C08 -- running commands never leaks descriptors, in the shell or into children.
   Model: Model/OsLite.v + Model/Pipeline.v (run_pipeline of core.rs as of /repo d4ac685); [v0] is the
   code as it is.  The other values of [variant] switch single repairs off again (the code before
   8dc92a8 / 07e8792 / 219c117 / 3c1f8de / d4ac685) and appear only in the regression examples. *)
From Coq Require Import List Arith Bool Lia.
From Cicada Require Import Model.OsLite Model.Pipeline Proofs.OsLiteProofs Proofs.PipelineProofs Proofs.ChildProofs
     Proofs.BuiltinProofs.
Import ListNotations.

Definition nf (_ : nat) := false.
Definition yes (_ : nat) := true.
Definition sh0 := mkp t_std [].
Definition ext := mks FNone [] KExt [].

(* ---------------- the full statement ---------------- *)
(* every exec'd stage holds 0 1 2 and, above 2, exactly what the shell had without close-on-exec *)
Definition kid_clean (T0 : table) (k : kid) : Prop :=
  k_out k = OExec ->
  (forall x, x < 3 -> exists o, lookup (tab (k_proc k)) x = Some (o, false)) /\
  (forall x, 3 <= x -> lookup (tab (k_proc k)) x = drop_cx (lookup T0 x)).
(* the shell's table is what it was (same numbers, same objects); also when pipe() fails *)
Definition run_clean (v : variant) (fail_at openable : nat -> bool) (pl : plan) (sh : proc) : Prop :=
  let r := run_pipeline v fail_at openable pl sh in
  teq_tab (res_shell r) (tab sh) /\ (res_error r = false -> Forall (kid_clean (tab sh)) (res_kids r)).
Definition C08_full : Prop :=
  forall fail_at openable pl sh i0 o0 e0, std_ok (tab sh) i0 o0 e0 -> run_clean v0 fail_at openable pl sh.

(* the stage classes of the variants (all empty for v0, see Known_C08_child_v0) *)
Definition Known_C08_child (v : variant) (capture last : bool) (st : stage) : bool :=
  negb (clean v capture last (s_redirs st)).
Definition Known_C08_shell (v : variant) (fail_at : nat -> bool) (pl : plan) : bool :=
  runs_in_shell pl
  || (capture_fails fail_at pl && negb (length (p_stages pl) =? 1) && negb (v_capfail v)).

Lemma existsb_split : forall (A : Type) (f g : A -> bool) (c1 c2 : bool) l,
  existsb (fun r => f r && c1 || g r && c2) l = existsb f l && c1 || existsb g l && c2.
Proof.
  induction l as [|x r IH]; [reflexivity|]. cbn [existsb]. rewrite IH.
  destruct (f x), (g x), c1, c2, (existsb f r), (existsb g r); reflexivity.
Qed.
Lemma existsb_andc : forall (A : Type) (f : A -> bool) (c : bool) l,
  existsb (fun r => f r && c) l = existsb f l && c.
Proof.
  induction l as [|x r IH]; [reflexivity|]. cbn [existsb]. rewrite IH.
  destruct (f x), c, (existsb f r); reflexivity.
Qed.
Lemma Known_C08_child_classes : forall v capture last st, v_capfirst v = false ->
  Known_C08_child v capture last st = known_dupleak v last capture st || known_capredir v last capture st.
Proof.
  intros v capture last st VC. unfold Known_C08_child, clean, known_dupleak, known_capredir, dirty.
  rewrite VC. cbn [negb]. rewrite !andb_true_r.
  rewrite has12_file.
  rewrite (existsb_split _ (fun r => is_dup21 r && negb (negb last)) is_dup12 (negb capture) (negb last || negb capture)).
  rewrite (existsb_andc _ is_dup21 (negb (negb last))).
  destruct (v_dupclose v), (v_capclose v), last, capture, (existsb is_dup21 (s_redirs st)),
    (existsb is_dup12 (s_redirs st)), (existsb is_file_redir (s_redirs st)); reflexivity.
Qed.

Lemma Known_C08_child_v0 : forall capture last st, Known_C08_child v0 capture last st = false.
Proof.
  intros. unfold Known_C08_child, clean, dirty, v0. cbn [v_dupclose v_capclose v_capfirst negb andb].
  rewrite !andb_false_r. reflexivity.
Qed.

(* the proposed notes/C04-fix-4.patch keeps the child class empty (C08_children_variants applies) *)
Lemma Known_C08_child_fix4 : forall capture last st,
  Known_C08_child (mkv true true true true true true true) capture last st = false.
Proof.
  intros. unfold Known_C08_child, clean, dirty. cbn [v_dupclose v_capclose v_capfirst negb andb].
  rewrite !andb_false_r. reflexivity.
Qed.

(* ---------------- every n, every initial table, every variant ---------------- *)
Theorem C08_shell_variants : forall v fail_at openable pl sh,
  Known_C08_shell v fail_at pl = false ->
  let r := run_pipeline v fail_at openable pl sh in
  teq_tab (res_shell r) (tab sh) /\ (res_error r = false -> length (res_kids r) = length (p_stages pl)).
Proof.
  intros v fail_at openable pl sh K. unfold Known_C08_shell in K.
  apply orb_false_iff in K. destruct K as (K1 & K2).
  apply shell_restored; auto.
  intro CF. rewrite CF in K2. cbn [andb] in K2. apply andb_false_iff in K2. destruct K2 as [K2|K2].
  - left. apply negb_false_iff in K2. apply Nat.eqb_eq in K2. exact K2.
  - right. apply negb_false_iff in K2. exact K2.
Qed.

Theorem C08_children_variants : forall v fail_at openable pl sh i0 o0 e0,
  std_ok (tab sh) i0 o0 e0 -> runs_in_shell pl = false ->
  let r := run_pipeline v fail_at openable pl sh in
  res_error r = false ->
  kids_ok (fun idx st k =>
             Known_C08_child v (p_capture pl) (idx =? length (p_stages pl) - 1) st = false -> kid_clean (tab sh) k)
          0 (p_stages pl) (res_kids r).
Proof.
  intros v fail_at openable pl sh i0 o0 e0 SO NB r NE.
  eapply kids_ok_impl; [|apply (pipeline_kids v openable fail_at pl sh i0 o0 e0 SO NB NE)].
  cbn beta. intros idx st k KS KN HE. unfold Known_C08_child in KN. apply negb_false_iff in KN. split.
  - destruct (kid_std_fds _ _ _ _ _ _ _ _ _ _ _ KS HE) as (A & B & C).
    intros x Hx. destruct x as [|[|[|x]]]; [eexists; exact A | eexists; exact B | eexists; exact C | lia].
  - eapply kid_clean_above; eauto.
Qed.

(* ---------------- the code as it is ---------------- *)
(* pipelines (anything that is not a lone builtin): for every number of stages, every initial table, every
   combination of here-strings, `<`, redirections, builtin / not-found stages, capture on or off, and EVERY
   failure point of the up-front loop and of the capture pipes, the shell's table is what it was *)
Theorem C08_shell : forall fail_at openable pl sh,
  runs_in_shell pl = false ->
  let r := run_pipeline v0 fail_at openable pl sh in
  teq_tab (res_shell r) (tab sh) /\ (res_error r = false -> length (res_kids r) = length (p_stages pl)).
Proof.
  intros fail_at openable pl sh NB. apply shell_restored; auto.
Qed.
Check C08_shell : forall fail_at openable pl sh,
  runs_in_shell pl = false ->
  let r := run_pipeline v0 fail_at openable pl sh in
  teq_tab (res_shell r) (tab sh) /\ (res_error r = false -> length (res_kids r) = length (p_stages pl)).

(* every exec'd stage of every pipeline has exactly 0 1 2 plus what the shell itself had open without
   close-on-exec: no pipe end of another stage, no capture pipe, no redirect target, no dup()ed copy,
   no here-string pipe -- no class excluded *)
Theorem C08_children : forall fail_at openable pl sh i0 o0 e0,
  std_ok (tab sh) i0 o0 e0 -> runs_in_shell pl = false ->
  let r := run_pipeline v0 fail_at openable pl sh in
  res_error r = false ->
  kids_ok (fun _ _ k => kid_clean (tab sh) k) 0 (p_stages pl) (res_kids r).
Proof.
  intros fail_at openable pl sh i0 o0 e0 SO NB r NE.
  eapply kids_ok_impl; [|apply (C08_children_variants v0 fail_at openable pl sh i0 o0 e0 SO NB NE)].
  cbn beta. intros idx st k H. apply H. apply Known_C08_child_v0.
Qed.
Check C08_children : forall fail_at openable pl sh i0 o0 e0,
  std_ok (tab sh) i0 o0 e0 -> runs_in_shell pl = false ->
  let r := run_pipeline v0 fail_at openable pl sh in
  res_error r = false ->
  kids_ok (fun _ _ k => kid_clean (tab sh) k) 0 (p_stages pl) (res_kids r).

(* a builtin that runs in the shell itself, captured or not, with ANY redirection list, unopenable targets
   included: the shell's table is what it was (since /repo c05c052 no list is excluded) *)
Theorem C08_builtin : forall fail_at openable pl sh st o1 c1 o2 c2,
  p_stages pl = [st] -> s_kind st = KBuiltin -> (p_capture pl = false \/ s_redirs st = []) ->
  lookup (tab sh) 1 = Some (o1, c1) -> lookup (tab sh) 2 = Some (o2, c2) ->
  teq_tab (res_shell (run_pipeline v0 fail_at openable pl sh)) (tab sh).
Proof. intros. eapply (builtin_restored v0); eauto. Qed.
Check C08_builtin : forall fail_at openable pl sh st o1 c1 o2 c2,
  p_stages pl = [st] -> s_kind st = KBuiltin -> (p_capture pl = false \/ s_redirs st = []) ->
  lookup (tab sh) 1 = Some (o1, c1) -> lookup (tab sh) 2 = Some (o2, c2) ->
  teq_tab (res_shell (run_pipeline v0 fail_at openable pl sh)) (tab sh).

(* C08_builtin quantifies over the plan, hence over s_prints : list (stream, text-is-empty): the descriptor obtained for a print
   (dup(1) / dup(2) or the redirection target) is owned and closed on EVERY path of print_stdout / print_stderr, for every text,
   the empty one included (`alias` while no alias is defined) *)
Example C08_builtin_empty_text :
  let run prints rs := tab (res_shell (run_pipeline v0 nf yes (mkplan [mks FNone rs KBuiltin prints] false) sh0)) in
  map (fun t => map (obj_at t) [3; 4; 5]) [run [(true, true)] []; run [(true, true)] [mkr F1 false (TFile 5)];
                                           run [(true, true); (false, true)] [mkr F2 false TAmp1; mkr F1 true (TFile 5)]]
  = [[None; None; None]; [None; None; None]; [None; None; None]].
Proof. vm_compute. reflexivity. Qed.

(* the arm for a target that cannot be opened, with the output captured or not, as its own case: the command
   fails, nothing is printed, and the shell's table -- capture pipes included -- is what it was.  (The cleanup of the
   capture pipes is decided by cl.is_single_and_builtin() in run_pipeline, not by the pid-like value
   run_single_program returns on this arm; the model follows the code in that.) *)
Theorem C08_builtin_unopenable : forall fail_at openable pl sh st o1 c1 o2 c2,
  p_stages pl = [st] -> s_kind st = KBuiltin -> p_capture pl = false ->
  allopen openable (s_redirs st) = false ->
  lookup (tab sh) 1 = Some (o1, c1) -> lookup (tab sh) 2 = Some (o2, c2) ->
  let r := run_pipeline v0 fail_at openable pl sh in
  res_error r = true /\ res_kids r = [] /\ res_sinks r = [] /\ teq_tab (res_shell r) (tab sh).
Proof.
  intros fail_at openable pl sh st o1 c1 o2 c2 ES EK EC AO H1 H2. cbv zeta.
  destruct (builtin_unopenable_error v0 fail_at openable pl sh st eq_refl ES EK EC AO) as (A & B & C).
  repeat split; auto. eapply C08_builtin; eauto.
Qed.
(* the same list with the output CAPTURED is a one-stage pipeline since 9dba15b: the forked child fails on the target and exits 1,
   the shell closes the capture pipes in the parent epilogue (C08_shell) *)
Example C08_captured_builtin_unopenable :
  let r := run_pipeline v0 nf (fun p => negb (Nat.eqb p 5)) (mkplan [mks FNone [mkr F1 false (TFile 5)] KBuiltin [(true, false)]] true) sh0 in
  map k_out (res_kids r) = [OExit 1] /\ map (obj_at (tab (res_shell r))) [3; 4; 5; 6] = [None; None; None; None].
Proof. vm_compute. split; reflexivity. Qed.

(* descriptor exhaustion in the up-front loop: error, nothing forked, everything released
   (the capture pipes' failure points are covered by C08_shell: table restored) *)
Theorem C08_emfile : forall v fail_at openable pl sh k,
  k < length (p_stages pl) - 1 -> fail_at k = true ->
  let r := run_pipeline v fail_at openable pl sh in
  res_error r = true /\ res_kids r = [] /\ teq_tab (res_shell r) (tab sh).
Proof. exact emfile_upfront. Qed.
Check C08_emfile : forall v fail_at openable pl sh k,
  k < length (p_stages pl) - 1 -> fail_at k = true ->
  let r := run_pipeline v fail_at openable pl sh in
  res_error r = true /\ res_kids r = [] /\ teq_tab (res_shell r) (tab sh).

(* descriptor exhaustion at the capture pipes: whichever of the two pipe() calls fails -- for the second
   the already created stdout capture pipe is closed again (core.rs: if let Some(fds) = fds_capture_stdout) --
   the result is an error, nothing is forked, the stage pipes and the first capture pipe are released *)
Theorem C08_emfile_capture : forall fail_at openable pl sh,
  runs_in_shell pl = false -> capture_fails fail_at pl = true ->
  let r := run_pipeline v0 fail_at openable pl sh in
  res_error r = true /\ res_kids r = [] /\ teq_tab (res_shell r) (tab sh).
Proof.
  intros fail_at openable pl sh NB CF. cbv zeta.
  destruct (capture_fail_error v0 fail_at openable pl sh CF) as (A & B).
  split; [exact A|]. split; [exact B|]. apply (proj1 (C08_shell fail_at openable pl sh NB)).
Qed.
Check C08_emfile_capture : forall fail_at openable pl sh,
  runs_in_shell pl = false -> capture_fails fail_at pl = true ->
  let r := run_pipeline v0 fail_at openable pl sh in
  res_error r = true /\ res_kids r = [] /\ teq_tab (res_shell r) (tab sh).

(* the failure point BETWEEN the two capture pipes, selected by fail_at: pipe() call number n (0-based: n-1
   stage pipes, then capture stdout = call n-1, capture stderr = call n).  One and two stages; the trace shows
   the first capture pipe (3,4 resp. 5,6) being created and closed again, then the stage pipe released. *)
Example C08_capture_second_pipe_fails :
  let r1 := run_pipeline v0 (fun k => Nat.eqb k 1) yes (mkplan [ext] true) sh0 in
  let r2 := run_pipeline v0 (fun k => Nat.eqb k 2) yes (mkplan [ext; ext] true) sh0 in
  capture_fails (fun k => Nat.eqb k 1) (mkplan [ext] true) = true /\
  res_error r1 = true /\ res_kids r1 = [] /\ map (obj_at (tab (res_shell r1))) [3; 4; 5; 6] = [None; None; None; None] /\
  rev (tr (res_shell r1)) = [EPipe 3 4; EPipeFail; EClose 3 true; EClose 4 true] /\
  res_error r2 = true /\ res_kids r2 = [] /\ map (obj_at (tab (res_shell r2))) [3; 4; 5; 6; 7; 8] = [None; None; None; None; None; None] /\
  rev (tr (res_shell r2)) = [EPipe 3 4; EPipe 5 6; EPipeFail; EClose 5 true; EClose 6 true; EClose 3 true; EClose 4 true].
Proof. vm_compute. repeat split; reflexivity. Qed.

(* the full statement: no class is left *)
Theorem C08_holds : C08_full.
Proof.
  intros fail_at openable pl sh i0 o0 e0 SO. unfold run_clean. cbv zeta.
  destruct (runs_in_shell pl) eqn:SB.
  - destruct (runs_in_shell_shape pl SB) as (st & ES & EK & INS).
    destruct SO as (_ & S1 & S2). split.
    + eapply (builtin_restored v0); eauto.
    + intros _. rewrite (builtin_no_kids v0 fail_at openable pl sh SB). constructor.
  - split.
    + apply (proj1 (C08_shell fail_at openable pl sh SB)).
    + intro NE. eapply kids_ok_Forall. apply (C08_children fail_at openable pl sh i0 o0 e0 SO SB NE).
Qed.
Check C08_holds : forall fail_at openable pl sh i0 o0 e0,
  std_ok (tab sh) i0 o0 e0 -> run_clean v0 fail_at openable pl sh.

Definition kid0 (r : result) := hd (mkkid 0 sh0 OExec) (res_kids r).
Definition p_dup := mkplan [mks FNone [mkr F2 false TAmp1] KExt []] false.
Definition p_bcap := mkplan [mks FNone [] KBuiltin [(true, false)]] true.
Definition p_capredir := mkplan [mks FNone [mkr F1 false (TFile 5)] KExt []] true.
Definition p_look := mkplan [mks FNone [mkr F1 false TAmp2; mkr F1 false (TFile 5)] KBuiltin [(true, false)]] false.

(* ---------------- regression: what each repair bought (the code BEFORE the commit leaks) ---------------- *)
Definition v_before_8dc92a8 := mkv false true true true true true false.
Definition v_before_07e8792 := mkv true false true true true true false.
Definition v_before_219c117 := mkv true true false true true true false.
Definition v_before_3c1f8de := mkv true true true false true true false.
Definition v_before_d4ac685 := mkv true true true true false true false.
Definition v_before_c05c052 := mkv true true true true true false false.
Definition bunop_plan := mkplan [mks FNone [mkr F1 false (TFile 5)] KBuiltin [(true, false)]] false.
Example C08_regression :
  (* prog 2>&1 : the dup()ed descriptor 3 stayed open in prog *)
  lookup (tab (k_proc (kid0 (run_pipeline v_before_8dc92a8 nf yes p_dup sh0)))) 3 = Some (OInh 1, false) /\
  lookup (tab (k_proc (kid0 (run_pipeline v0 nf yes p_dup sh0)))) 3 = None /\
  (* echo $(alias) : the four capture-pipe ends stayed open in the shell *)
  map (obj_at (tab (res_shell (run_pipeline v_before_07e8792 nf yes p_bcap sh0)))) [3; 4; 5; 6]
  = [Some (OPipeR PCapOut); Some (OPipeW PCapOut); Some (OPipeR PCapErr); Some (OPipeW PCapErr)] /\
  map (obj_at (tab (res_shell (run_pipeline v0 nf yes p_bcap sh0)))) [3; 4; 5; 6] = [None; None; None; None] /\
  (* echo $(prog > f) : prog kept both ends of the stdout capture pipe *)
  map (obj_at (tab (k_proc (kid0 (run_pipeline v_before_219c117 nf yes p_capredir sh0))))) [3; 4]
  = [Some (OPipeR PCapOut); Some (OPipeW PCapOut)] /\
  map (obj_at (tab (k_proc (kid0 (run_pipeline v0 nf yes p_capredir sh0))))) [3; 4] = [None; None] /\
  (* echo $(a | b) with a failing capture pipe(): the stage pipe 3,4 was not released *)
  map (obj_at (tab (res_shell (run_pipeline v_before_3c1f8de (fun k => Nat.eqb k 1) yes (mkplan [ext; ext] true) sh0)))) [3; 4]
  = [Some (OPipeR (PStage 0)); Some (OPipeW (PStage 0))] /\
  map (obj_at (tab (res_shell (run_pipeline v0 (fun k => Nat.eqb k 1) yes (mkplan [ext; ext] true) sh0)))) [3; 4] = [None; None] /\
  (* alias 1>&2 > f : the look-ahead call of the old _get_std_fds opened f and dropped the descriptor *)
  lookup (tab (res_shell (run_pipeline v_before_c05c052 nf yes p_look sh0))) 3 = Some (OFile 5 MTrunc, true) /\
  map (obj_at (tab (res_shell (run_pipeline v0 nf yes p_look sh0)))) [3; 4; 5] = [None; None; None] /\
  (* alias > /nonexistent/x : ran anyway, status 0 *)
  res_error (run_pipeline v_before_d4ac685 nf (fun p => negb (Nat.eqb p 5)) bunop_plan sh0) = false /\
  res_error (run_pipeline v0 nf (fun p => negb (Nat.eqb p 5)) bunop_plan sh0) = true.
Proof. vm_compute. repeat split; reflexivity. Qed.

(* non-vacuity: a 3-stage pipeline with here-string and redirections from an initial table with a hole *)
Example C08_nonvacuous :
  let pl := mkplan [ext; mks FHere [mkr F1 true (TFile 4); mkr F2 false TAmp1] KExt []; mks FNone [mkr F2 false (TFile 6); mkr F1 false TAmp2] KExt []] false in
  let sh := mkp [Some (OInh 0, false); Some (OInh 1, false); Some (OInh 2, false); None; Some (OInh 4, true)] [] in
  map (fun k => (k_out k, map (obj_at (tab (k_proc k))) [0; 1; 2; 3; 4; 5])) (res_kids (run_pipeline v0 nf yes pl sh))
  = [(OExec, [Some (OInh 0); Some (OPipeW (PStage 0)); Some (OInh 2); None; None; None]);
     (OExec, [Some (OPipeR (PHere 1)); Some (OFile 4 MAppend); Some (OFile 4 MAppend); None; None; None]);
     (OExec, [Some (OPipeR (PStage 1)); Some (OFile 6 MTrunc); Some (OFile 6 MTrunc); None; None; None])].
Proof. vm_compute. repeat split; reflexivity. Qed.

Print Assumptions C08_shell.
Print Assumptions C08_children.
Print Assumptions C08_builtin.
Print Assumptions C08_builtin_unopenable.
Print Assumptions C08_holds.
Print Assumptions C08_emfile.
Print Assumptions C08_emfile_capture.
