(** C07 -- the terminal belongs to the foreground job while it runs, else to the shell.
    PARTIAL: a bookkeeping model (Model/Term.v); the kernel rules K1-K6 listed
    there are assumptions. Statements only; proofs are in Proofs/TermProofs.v.
    The model follows /repo after b465168 (parent-side setpgid) and the four
    C06 repairs 2503a9b, ac01883, ac20f13, 1687e77: no launch has a schedule
    oracle any more and nothing below is refuted. *)
From Coq Require Import ZArith List Bool.
From Cicada Require Import Model.Jobs Model.Term Proofs.TermProofs Proofs.JobsSpec Proofs.JobsInv Proofs.TermSim.
From Cicada Require Import Model.WaitTerm Proofs.WaitTermProofs.
From Cicada Require Model.WaitFg Proofs.WaitFgJobs.
From Cicada Require Import Proofs.WaitResume.
Import ListNotations.
Local Open Scope Z_scope.

(** At every prompt the terminal's foreground group is the shell's: every
    action list, every configuration. *)
Theorem C07_prompt_owner : forall c acts,
  md (Term.run c acts) = AtPrompt -> owner (Term.run c acts) = c_sh c.
Proof. exact prompt_owner. Qed.
Check C07_prompt_owner : forall c acts,
  md (Term.run c acts) = AtPrompt -> owner (Term.run c acts) = c_sh c.

(** Nobody but the shell or the job being waited for ever owns the terminal. *)
Theorem C07_owner_cases : forall c acts,
  owner (Term.run c acts) = c_sh c \/
  exists pids w v rest, md (Term.run c acts) = Waiting (owner (Term.run c acts)) pids w v rest.
Proof. exact owner_cases. Qed.

(** A job launched with & (typed at the prompt) is never the owner as long as
    no later action is an fg (or re-uses its leader's pid for a new launch). *)
Theorem C07_bg_never_owner : forall c pre pids post,
  hd 0 pids <> c_sh c ->
  md (Term.run c pre) = AtPrompt ->
  forallb (fun a => negb (may_fg (hd 0 pids) a)) post = true ->
  owner (Term.run c (pre ++ ALaunch pids true :: post)) <> hd 0 pids.
Proof. exact bg_never_owner. Qed.
Check C07_bg_never_owner : forall c pre pids post,
  hd 0 pids <> c_sh c -> md (Term.run c pre) = AtPrompt ->
  forallb (fun a => negb (may_fg (hd 0 pids) a)) post = true ->
  owner (Term.run c (pre ++ ALaunch pids true :: post)) <> hd 0 pids.

(** No action moves a process to another group; processes are only added, and
    only the stages of launches of the line being run, each in the group of the
    first stage of its launch ([ledc]); what is left to run of a line is part of it. *)
Theorem C07_groups_fixed : forall c s a, exists ex,
  groups (Term.step c s a) = groups s ++ ex /\ Forall (ledc (rest_of (md s) ++ line_of a)) ex /\
  incl (rest_of (md (Term.step c s a))) (rest_of (md s) ++ line_of a).
Proof. exact step_groups. Qed.

(** The shell's signal mask. [give_terminal_to] blocks SIGTSTP / SIGTTIN /
    SIGTTOU / SIGCHLD, calls tcsetpgrp and restores the saved mask: the mask
    afterwards is the mask before, whatever tcsetpgrp returned. *)
Theorem C07_give_terminal_mask : forall ok gid ow m, snd (give_terminal_to ok gid ow m) = m.
Proof. exact give_terminal_to_mask. Qed.

(** In every state of every session -- in particular at every prompt, and after
    every failed hand-over of the terminal -- the shell's mask is the initial
    one, and every process the shell has started began with the initial mask
    (so Ctrl-Z reaches it, K8). *)
Theorem C07_mask_initial : forall c acts,
  smask (Term.run c acts) = false /\ Forall (fun p => pblk p = false) (procs (k (Term.run c acts))).
Proof. exact mask_initial. Qed.
Check C07_mask_initial : forall c acts,
  smask (Term.run c acts) = false /\ Forall (fun p => pblk p = false) (procs (k (Term.run c acts))).

(** The two clauses that used to depend on the schedule: while the shell waits
    on job J the owner is gid J, and every process sits in the group led by
    the first stage of its pipeline. *)
Definition C07_holds (c : cfg) (acts : list action) : Prop :=
  (forall g pids w v rest, md (Term.run c acts) = Waiting g pids w v rest -> owner (Term.run c acts) = g) /\
  Forall (led acts) (groups (Term.run c acts)).

Definition C07_full : Prop := forall c acts, tty c = true -> C07_holds c acts.

Theorem C07_full_holds : C07_full.
Proof.
  intros c acts T. split.
  - intros g pids w v rest M. eapply wait_owner; eauto.
  - apply one_group.
Qed.
Check C07_full_holds : forall c acts, tty c = true ->
  (forall g pids w v rest, md (Term.run c acts) = Waiting g pids w v rest -> owner (Term.run c acts) = g) /\
  Forall (led acts) (groups (Term.run c acts)).

(** ---------- the job-table clauses, as corollaries of C06 lifted through the actions.
    [gh] of a state is the history of C06's model the session has performed
    (Model/Term.v: a launch = Launch, a foreground wait that returned = Wait with
    the statuses it consumed, every poll = Poll with the statuses it drained; fg
    and bg are no operations of C06's model, hence [no_fgbg]). *)
Definition hist (c : cfg) (acts : list action) : list op := gh (Term.run c acts).

(** The shell value (job table + parked maps) of the session IS C06's model
    run on the projected history; while waiting, resuming C06's wait loop on the
    current shell equals running it from the start of the wait. *)
Theorem C07_simulation : forall c acts, forallb no_fgbg acts = true -> Sim (Term.run c acts).
Proof. exact sim. Qed.

Corollary C07_table_is_C06 : forall c acts,
  forallb no_fgbg acts = true -> md (Term.run c acts) = AtPrompt ->
  shl (k (Term.run c acts)) = r_sh (Jobs.run (hist c acts)) /\ r_pend (Jobs.run (hist c acts)) = [].
Proof.
  intros c acts A M. destruct (sim c acts A) as [P [_ H]]. rewrite M in H. split; auto.
Qed.

(** "The foreground wait returns exactly when no member of the job runs": for
    every foreground wait of the session (a Wait of the projected history), when
    the history is valid in C06's sense, C06's [good_wait] holds right after it:
    the wait has returned, no member is running (all exited / killed / stopped,
    by the statuses consumed), some member was still running before the last
    status it consumed, and the status is the last member's. *)
Theorem C07_wait_exact : forall c acts h gid pids evs rest,
  valid (hist c acts) = true -> hist c acts = h ++ Wait gid pids evs :: rest ->
  good_wait (h ++ [Wait gid pids evs]) pids = true.
Proof.
  intros c acts h gid pids evs rest V E.
  assert (V1 : valid (h ++ [Wait gid pids evs]) = true).
  { apply (valid_prefix _ rest). rewrite <- app_assoc. cbn. rewrite <- E. exact V. }
  destruct (valid_good _ V1) as [_ G]. unfold good in G. rewrite last_last in G. exact G.
Qed.

(** "[jobs] lists exactly the live background-or-stopped pipelines with their
    true state": the job lines printed are [job_line] of every entry of C06's
    table after the history [hj] (the session so far plus the poll inside
    [jobs]), nothing is pending there, and when [hj] is valid that table is good:
    a launched process is in it iff it has not ended, shown stopped iff it is
    stopped, every job has a live member and is Stopped iff all its live members
    are. With the wait clause, a job still in the table at a prompt is
    background or stopped. *)
Theorem C07_jobs_exact : forall c pre,
  forallb no_fgbg pre = true -> md (Term.run c pre) = AtPrompt -> ctab (k (Term.run c pre)) <> [] ->
  let s := Term.run c pre in
  let hj := gh s ++ [Poll (fst (poll_evs (quiet (k s))))] in
  filter is_line (outs (k (Term.step c s AJobs))) = map job_line (tab (r_sh (Jobs.run hj))) /\ (valid hj = true -> good_table hj = true).
Proof.
  intros c pre A M NE s hj. destruct (jobs_prints c pre A M NE) as [L P]. fold s in L, P. fold hj in L, P.
  split; [exact L|]. intro V. destruct (valid_good _ V) as [_ G]. unfold good in G.
  unfold hj in G at 1. rewrite last_last in G. fold hj in G. rewrite P in G. exact G.
Qed.

(** non-vacuity of the lifting: a session (no fg / bg) whose projected history is valid *)
Definition w_lift :=
  [ALaunch [101; 102] true; ALaunch [103] false; ESig 101 19; ACtrlZ; AJobs; ESig 102 9; EExit 103 0; ESig 101 18;
   AEmpty; ALaunch [104; 105] false; EExit 104 0; ESig 105 15; AJobs].
Example C07_lift_nonvacuous :
  forallb no_fgbg w_lift = true /\ valid (hist (mkcfg 1 true true) w_lift) = true /\ length (hist (mkcfg 1 true true) w_lift) = 13%nat /\ filter is_line (outs (k (Term.run (mkcfg 1 true true) w_lift))) = [OJobLine 1 101 Running true; OJobLine 2 103 Stopped false].
Proof. vm_compute. repeat split. Qed.

Definition cfg0 := mkcfg 1 true true.
Definition tabv (s : st) := map (fun j => (jid j, jpids j, jst j, jbg j)) (ctab (k s)).

(** ---------- regression examples: the witnesses of the five repaired findings *)

(** stage_outside_group (b465168): both stages are in group 101, Ctrl-C ends the job *)
Example C07_regress_stage_outside_group :
  groups (Term.run cfg0 [ALaunch [101; 102] false]) = [(101, 101); (102, 101)] /\
  md (Term.run cfg0 [ALaunch [101; 102] false; ACtrlC]) = AtPrompt /\
  map Term.pst (procs (k (Term.run cfg0 [ALaunch [101; 102] false; ACtrlC]))) = [PGone; PGone].
Proof. vm_compute. repeat split. Qed.

(** count_waited (1687e77): after stop, continue and exit of 101 the shell still
    waits and 102 has the terminal; the prompt returns when 102 ends *)
Definition w_count_waited := [ALaunch [101; 102] false; ESig 101 19; ESig 101 18; EExit 101 0].
Example C07_regress_count_waited :
  md (Term.run cfg0 w_count_waited) = Waiting 101 [101; 102] [101] (VLaunch true) [] /\
  owner (Term.run cfg0 w_count_waited) = 101 /\
  map Term.pst (procs (k (Term.run cfg0 w_count_waited))) = [PGone; PRun] /\
  md (Term.run cfg0 (w_count_waited ++ [EExit 102 0])) = AtPrompt /\
  tabv (Term.run cfg0 (w_count_waited ++ [EExit 102 0])) = [].
Proof. vm_compute. repeat split. Qed.

(** stop_cont_parked (ac20f13): a background job stopped and continued during a
    foreground wait is Running afterwards and no Stopped notice is printed *)
Definition w_stop_cont_parked :=
  [ALaunch [101] true; ALaunch [102] false; ESig 101 19; ESig 101 18; EExit 102 0].
Example C07_regress_stop_cont_parked :
  md (Term.run cfg0 w_stop_cont_parked) = AtPrompt /\
  tabv (Term.run cfg0 w_stop_cont_parked) = [(1, [101], Running, true)] /\
  outs (k (Term.run cfg0 w_stop_cont_parked)) = [].
Proof. vm_compute. repeat split. Qed.

(** exit_among_stopped (2503a9b): the last running member exits, the rest is stopped: Stopped *)
Definition w_exit_among_stopped :=
  [ALaunch [101; 102] true; ESig 101 19; AEmpty; EExit 102 0; AEmpty; AJobs].
Example C07_regress_exit_among_stopped :
  outs (k (Term.run cfg0 w_exit_among_stopped)) = [OJobLine 1 101 Stopped false].
Proof. vm_compute. repeat split. Qed.

(** partial_continue (ac01883): one member of a stopped job runs again: Running *)
Definition w_partial_continue :=
  [ALaunch [101; 102] true; ESig 101 19; ESig 102 19; AEmpty; ESig 101 18; AEmpty; AJobs].
Example C07_regress_partial_continue :
  outs (k (Term.run cfg0 w_partial_continue)) = [OJobLine 1 101 Running true].
Proof. vm_compute. repeat split. Qed.

(** a hand-over that FAILS (seed C07-sigmask-not-restored-on-tcsetpgrp-failure): a
    background job ends while a foreground command of the same line is waited
    for (the wait reaps it, the table still lists it), then [fg] on that line:
    tcsetpgrp to the vanished group fails. Afterwards the mask is the initial
    one, a later foreground job starts unblocked and Ctrl-Z stops it. *)
Definition w_fg_gone :=
  [ALaunch [101] true; ALine [CLaunch [102] false; CFg (Some 1) 0]; EExit 101 0; EExit 102 0;
   ALaunch [103] false; ACtrlZ].
Example C07_regress_failed_handover :
  (* after the line: at the prompt, fg printed the command and failed, the job is reported Done *)
  outs (k (Term.run cfg0 (firstn 4 w_fg_gone))) = [OFgCmd 1; ODone 1 101 (-1)] /\
  md (Term.run cfg0 (firstn 4 w_fg_gone)) = AtPrompt /\
  smask (Term.run cfg0 (firstn 4 w_fg_gone)) = false /\
  (* the next foreground job is stopped by Ctrl-Z and the prompt returns *)
  md (Term.run cfg0 w_fg_gone) = AtPrompt /\
  map (fun p => (Term.pst p, pblk p)) (procs (k (Term.run cfg0 w_fg_gone))) = [(PGone, false); (PGone, false); (PStop, false)] /\
  outs (k (Term.run cfg0 w_fg_gone)) = [OStopped 1 103].
Proof. vm_compute. repeat split. Qed.

(** non-vacuity: a session through bg launch, fg launch, Ctrl-Z, jobs, fg, Ctrl-C, bg, kill *)
Definition w_session :=
  [ALaunch [101; 102] true; ALaunch [103] false; ACtrlZ; AJobs;
   AFg (Some 2) 0; ACtrlC; ESig 101 19; ESig 102 19; AEmpty; ABg None 1; ESig 101 9; ESig 102 15; AEmpty].
Example C07_nonvacuous :
  map (fun s => (wgid (md s), owner s)) (Term.trace cfg0 (init cfg0) w_session) =
    [(None, 1); (Some 103, 103); (None, 1); (None, 1); (Some 103, 103); (None, 1); (None, 1); (None, 1);
     (None, 1); (None, 1); (None, 1); (None, 1); (None, 1)] /\
  map Term.pst (procs (k (nth 4 (Term.trace cfg0 (init cfg0) w_session) (init cfg0)))) = [PRun; PRun; PRun] /\
  outs (k (Term.run cfg0 w_session)) = [ODone 1 101 15].
Proof. vm_compute. repeat split. Qed.


(** ---------- round 9: the foreground wait against an ORACLE kernel (Model/WaitTerm.v).
    [wait_fg_o c fuel q kk gid pids v rest ow m g] is wait_fg_job as Term.v has it
    (the same [wait_body] per iteration, the same return test, the same [finish]) run
    on the answers [q] of waitpid(-1, WUNTRACED|WCONTINUED): [RStatus e] for ANY child
    (member or foreign; exit, signal, stop, continue; any order) or [REchild].
    Kernel behaviour that is HYPOTHESIS, not proved:
      H1 the state of a child is what its last delivered status says ([settled_in]:
         the last status of the pid is not a continue -- a member stopped and then
         continued is NOT settled);
      K4 ([K4_oracle]) ECHILD is answered only when every member has been reaped by a
         status delivered inside this wait.
    Out-of-fuel is excluded by the hypothesis that the loop returned; [C07_wait_fuel_suffices]. *)

(** If the wait returns, then: it consumed a prefix [used] of the answers; every member
    of the job is settled by the statuses consumed; the Wait recorded in the ghost
    history carries exactly those statuses; and the status returned is the one of the
    last status of the LAST member (which is not a continue). *)
Theorem C07_wait_returns_settled : forall c fuel q kk gid pids v rest ow m g s' st left,
  K4_oracle pids q ->
  wait_fg_o c fuel q kk gid pids v rest ow m g = WReturned s' st left ->
  exists used, q = used ++ left /\
    gh s' = g ++ [Wait gid pids (statuses used)] /\
    (forall p, In p pids -> settled_in (statuses used) p) /\
    (pids = [] -> st = 0) /\
    (pids <> [] -> exists e, last_of (last pids 0) (statuses used) = Some e /\ is_cont e = false /\
                             st = ev_status e).
Proof. exact wait_returns_settled. Qed.
Check C07_wait_returns_settled : forall c fuel q kk gid pids v rest ow m g s' st left,
  K4_oracle pids q ->
  wait_fg_o c fuel q kk gid pids v rest ow m g = WReturned s' st left ->
  exists used, q = used ++ left /\
    gh s' = g ++ [Wait gid pids (statuses used)] /\
    (forall p, In p pids -> settled_in (statuses used) p) /\
    (pids = [] -> st = 0) /\
    (pids <> [] -> exists e, last_of (last pids 0) (statuses used) = Some e /\ is_cont e = false /\
                             st = ev_status e).

(** The terminal goes back exactly then (no kernel hypothesis): in the state after the
    return the owner is the shell when the terminal had been handed over ([back v]: fg
    always, a launch iff term_given), the mask is unchanged and the line goes on; and on
    EVERY proper prefix of the answers consumed the shell is still blocked inside the
    loop, in mode Waiting on this job, with the owner it entered the wait with. *)
Theorem C07_wait_gives_back_terminal : forall c fuel q kk gid pids v rest ow m g s' st left,
  wait_fg_o c fuel q kk gid pids v rest ow m g = WReturned s' st left ->
  owner s' = (if back v then c_sh c else ow) /\ md s' = Between rest /\ smask s' = m /\
  exists used, q = used ++ left /\
    forall q1 q2, used = q1 ++ q2 -> q2 <> [] ->
      exists s1 st1 w1,
        wait_fg_o c fuel q1 kk gid pids v rest ow m g = WBlocked s1 st1 /\
        owner s1 = ow /\ md s1 = Waiting gid pids w1 v rest /\ wevs s1 = statuses q1.
Proof. exact wait_gives_back_terminal. Qed.
Check C07_wait_gives_back_terminal : forall c fuel q kk gid pids v rest ow m g s' st left,
  wait_fg_o c fuel q kk gid pids v rest ow m g = WReturned s' st left ->
  owner s' = (if back v then c_sh c else ow) /\ md s' = Between rest /\ smask s' = m /\
  exists used, q = used ++ left /\
    forall q1 q2, used = q1 ++ q2 -> q2 <> [] ->
      exists s1 st1 w1,
        wait_fg_o c fuel q1 kk gid pids v rest ow m g = WBlocked s1 st1 /\
        owner s1 = ow /\ md s1 = Waiting gid pids w1 v rest /\ wevs s1 = statuses q1.

(** fuel: one unit per answer delivered, plus one *)
Theorem C07_wait_fuel_suffices : forall c fuel q kk gid pids v rest ow m g,
  (length q < fuel)%nat -> wait_fg_o c fuel q kk gid pids v rest ow m g <> WOutOfFuel.
Proof. exact wait_fuel_suffices. Qed.
Check C07_wait_fuel_suffices : forall c fuel q kk gid pids v rest ow m g,
  (length q < fuel)%nat -> wait_fg_o c fuel q kk gid pids v rest ow m g <> WOutOfFuel.

(** non-vacuity: the job 101 | 102 | 103 just launched in the foreground; the kernel
    delivers stop(101), exit(102), exit of the foreign child 200, cont(101), exit(103)
    -- two members settled, 101 runs again: the wait goes on, the job keeps the
    terminal -- then exit(101): the wait returns, status 7 of the last member 103, the
    terminal is the shell's; one more status stays undelivered. *)
Definition w3_start := Term.run cfg0 [ALaunch [101; 102; 103] false].
Definition w3_q : list reply :=
  [RStatus (StoppedE 101 19); RStatus (Exited 102 0); RStatus (Exited 200 5); RStatus (Continued 101);
   RStatus (Exited 103 7); RStatus (Exited 101 3); RStatus (Exited 300 0)].
Definition w3_run (q : list reply) : wout :=
  wait_fg_o cfg0 8 q (k w3_start) 101 [101; 102; 103] (VLaunch true) [] (owner w3_start) (smask w3_start) (gh w3_start).
Definition wview (o : wout) : option (bool * Z * mode * Z * list reply) :=
  match o with
  | WReturned s st l => Some (true, owner s, md s, st, l)
  | WBlocked s st => Some (false, owner s, md s, st, [])
  | WOutOfFuel => None
  end.
Example C07_wait_nonvacuous :
  md w3_start = Waiting 101 [101; 102; 103] [] (VLaunch true) [] /\ owner w3_start = 101 /\
  wview (w3_run w3_q) = Some (true, 1, Between [], 7, [RStatus (Exited 300 0)]) /\
  wview (w3_run (firstn 5 w3_q)) = Some (false, 101, Waiting 101 [101; 102; 103] [103; 102] (VLaunch true) [], 7, []) /\
  wview (w3_run (firstn 2 w3_q)) = Some (false, 101, Waiting 101 [101; 102; 103] [102; 101] (VLaunch true) [], 0, []) /\
  K4_oracle [101; 102; 103] w3_q /\ (length w3_q < 8)%nat /\
  (* ECHILD breaks the loop as well *)
  wview (w3_run [RStatus (Exited 101 0); REchild]) = Some (true, 1, Between [], 0, []).
Proof.
  split; [vm_compute; reflexivity|]. split; [vm_compute; reflexivity|].
  split; [vm_compute; reflexivity|]. split; [vm_compute; reflexivity|].
  split; [vm_compute; reflexivity|]. split; [|split; [vm_compute; repeat constructor|vm_compute; reflexivity]].
  intros evs1 post E. exfalso.
  assert (I : In REchild w3_q) by (rewrite E; apply in_or_app; right; left; reflexivity).
  cbn in I. repeat (destruct I as [I|I]; [discriminate I|]). exact I.
Qed.

(** The loop the sessions of Model/Term.v run ([Term.settle], entered by a foreground
    launch or fg through [enter_wait] and resumed after every kernel event) IS the
    oracle loop on the answers Term.v's own kernel model gives ([kreplies]: [next_status],
    ECHILD when every child is reaped, else the call blocks): same session state up to
    the [procs] field, which the oracle loop does not touch. *)
Theorem C07_settle_is_oracle_wait : forall c gid pids v rest ow m g fuel kk kt w we status,
  core_eq kk kt ->
  match wait_o c fuel (kreplies fuel (procs kt)) kk gid pids w v rest ow m g we status with
  | WReturned s' _ _ => st_eq s' (settle c fuel (waiting_st kt gid pids w v rest ow m g we))
  | WBlocked s1 _ => st_eq s1 (settle c fuel (waiting_st kt gid pids w v rest ow m g we))
  | WOutOfFuel => exists k1 w1 we1,
      settle c fuel (waiting_st kt gid pids w v rest ow m g we) = waiting_st k1 gid pids w1 v rest ow m g we1
  end.
Proof. exact settle_is_wait_o. Qed.

(** ---------- round 9, second part *)

(** K4 with a set [gone0] of members reaped BEFORE this wait (fg on a job one of whose
    members was reaped earlier on the same line, the fg_gone sessions): ECHILD is answered
    only when every member is in [gone0] or was reaped by a status delivered inside the
    wait. Then every member is settled by the consumed statuses or in [gone0]; the status
    is the one of the last non-continue status of the last member, if it has one. *)
Theorem C07_wait_returns_settled_fg : forall (gone0 : Z -> Prop) c fuel q kk gid pids v rest ow m g s' st left,
  K4_oracle_g gone0 pids q ->
  wait_fg_o c fuel q kk gid pids v rest ow m g = WReturned s' st left ->
  exists used, q = used ++ left /\
    gh s' = g ++ [Wait gid pids (statuses used)] /\
    (forall p, In p pids -> settled_in (statuses used) p \/ gone0 p) /\
    (pids = [] -> st = 0) /\
    (forall e, last_of (last pids 0) (statuses used) = Some e -> is_cont e = false -> st = ev_status e).
Proof. exact wait_returns_settled_g. Qed.
Check C07_wait_returns_settled_fg : forall (gone0 : Z -> Prop) c fuel q kk gid pids v rest ow m g s' st left,
  K4_oracle_g gone0 pids q ->
  wait_fg_o c fuel q kk gid pids v rest ow m g = WReturned s' st left ->
  exists used, q = used ++ left /\
    gh s' = g ++ [Wait gid pids (statuses used)] /\
    (forall p, In p pids -> settled_in (statuses used) p \/ gone0 p) /\
    (pids = [] -> st = 0) /\
    (forall e, last_of (last pids 0) (statuses used) = Some e -> is_cont e = false -> st = ev_status e).

(** non-vacuity: job [101; 102], 101 reaped before the wait; exit(102) does not reach the
    count, ECHILD ends the wait; status 3 of the last member *)
Example C07_wait_fg_nonvacuous :
  let q := [RStatus (Exited 102 3); REchild] in
  K4_oracle_g (fun p => p = 101) [101; 102] q /\
  wview (wait_fg_o cfg0 3 q (k w3_start) 101 [101; 102] VFg [] 101 false []) = Some (true, 1, Between [], 3, []) /\
  wview (wait_fg_o cfg0 3 (firstn 1 q) (k w3_start) 101 [101; 102] VFg [] 101 false []) =
    Some (false, 101, Waiting 101 [101; 102] [102] VFg [], 3, []).
Proof.
  split; [|split; vm_compute; reflexivity].
  intros evs1 post E p Hp. destruct evs1 as [|a [|b l]]; cbn in E; try discriminate E.
  injection E as <- _. destruct Hp as [<-|[<-|[]]]; [right; reflexivity|].
  left. exists (Exited 102 3). split; reflexivity.
Qed.

(** Term.v's own kernel model satisfies K4: whatever [next_status] / [all_gone] answer from
    the processes [ps0], an ECHILD comes only after every pid has either no unreaped
    process in [ps0] or an exit / kill status as its last status. PROVED, no hypothesis. *)
Theorem C07_kernel_K4 : forall fuel ps0 pids, K4_oracle_g (gone0 ps0) pids (kreplies fuel ps0).
Proof. exact kreplies_K4. Qed.

(** ... and H1: after the statuses [evs1] the processes are [kafter (length evs1) ps0],
    and for every pid whose last status in [evs1] is [e] there is a process with that pid
    in exactly the state [e] reports (exit / kill: reaped; stop: stopped; continue: running). *)
Theorem C07_kernel_truthful : forall evs1 fuel ps0 post,
  kreplies fuel ps0 = map RStatus evs1 ++ post ->
  forall p e, last_of p evs1 = Some e ->
  exists pr, In pr (kafter (length evs1) ps0) /\ ppid pr = p /\ truthful e pr.
Proof.
  intros evs1 fuel ps0 post H.
  destruct (kreplies_truth evs1 fuel ps0 post ps0 [] H (TInv_init ps0)) as [[T1 _] _]. exact T1.
Qed.

(** The composition, about [Term.settle] itself and without kernel hypothesis: a wait just
    entered (empty settled set, as [enter_wait] starts it) on processes [procs kt]; if
    [settle] comes back out of the loop then the terminal is the shell's (when it had been
    handed over), the ghost history got the Wait with the consumed statuses, and every
    member either had no unreaped process when the wait began or is settled by those
    statuses AND a process with its pid is, in [procs] afterwards, reaped or stopped. *)
Theorem C07_settle_returns_settled : forall c gid pids v rest ow m g fuel kt,
  pids <> [] ->
  let s' := settle c fuel (waiting_st kt gid pids [] v rest ow m g []) in
  md s' = Between rest ->
  owner s' = (if back v then c_sh c else ow) /\
  exists evs, gh s' = g ++ [Wait gid pids evs] /\
    forall p, In p pids ->
      (settled_in evs p \/ gone0 (procs kt) p) /\
      (gone0 (procs kt) p \/
       exists pr, In pr (procs (k s')) /\ ppid pr = p /\ (Term.pst pr = PGone \/ Term.pst pr = PStop)).
Proof. exact settle_returns_settled. Qed.
Check C07_settle_returns_settled : forall c gid pids v rest ow m g fuel kt,
  pids <> [] ->
  let s' := settle c fuel (waiting_st kt gid pids [] v rest ow m g []) in
  md s' = Between rest ->
  owner s' = (if back v then c_sh c else ow) /\
  exists evs, gh s' = g ++ [Wait gid pids evs] /\
    forall p, In p pids ->
      (settled_in evs p \/ gone0 (procs kt) p) /\
      (gone0 (procs kt) p \/
       exists pr, In pr (procs (k s')) /\ ppid pr = p /\ (Term.pst pr = PGone \/ Term.pst pr = PStop)).

(** non-vacuity: the job 101 | 102 | 103, 101 stopped, 102 exited, 103 killed when the
    wait is entered: settle returns; processes afterwards stopped / reaped / reaped *)
Definition w3_procs : list proc :=
  on_pid (deliver 9) 103 (on_pid (do_exit 4) 102 (on_pid (deliver 19) 101 (procs (k w3_start)))).
Definition w3_kt : core := mkcore w3_procs (shl (k w3_start)) [].
Example C07_settle_nonvacuous :
  let s' := settle cfg0 4 (waiting_st w3_kt 101 [101; 102; 103] [] (VLaunch true) [] 101 false [] []) in
  md s' = Between [] /\ owner s' = 1 /\ map Term.pst (procs (k s')) = [PStop; PGone; PGone] /\
  gh s' = [Wait 101 [101; 102; 103] [StoppedE 101 19; Exited 102 4; Signaled 103 9]].
Proof. vm_compute. repeat split. Qed.

(** The oracle loop of Model/WaitTerm.v (= [Term.settle], C07_settle_is_oracle_wait) and
    C06's [Jobs.wait_fg_job] / [Jobs.wait_loop] (tied in-process by C06's harness) are one
    function: on the same statuses, from the same shell value (and, for the loops, the same
    settled set and status) they stop at the same status with the same job table + parked
    maps, the same cmd_result.status and the same statuses left; statuses running out is
    [w_blocked] there and [WBlocked] here ([same_result]). *)
Theorem C07_wait_o_is_jobs_wait_loop : forall c gid pids v rest ow m g evs fuel kk w we status,
  (length evs < fuel)%nat ->
  same_result (Jobs.wait_loop evs (shl kk) gid pids (last pids 0) (length pids) w status)
              (wait_o c fuel (map RStatus evs) kk gid pids w v rest ow m g we status).
Proof. exact wait_o_is_wait_loop. Qed.
Check C07_wait_o_is_jobs_wait_loop : forall c gid pids v rest ow m g evs fuel kk w we status,
  (length evs < fuel)%nat ->
  same_result (Jobs.wait_loop evs (shl kk) gid pids (last pids 0) (length pids) w status)
              (wait_o c fuel (map RStatus evs) kk gid pids w v rest ow m g we status).

Theorem C07_wait_fg_o_is_jobs_wait_fg_job : forall c gid pids v rest ow m g evs fuel kk,
  (length evs < fuel)%nat ->
  same_result (Jobs.wait_fg_job (shl kk) gid pids evs)
              (wait_fg_o c fuel (map RStatus evs) kk gid pids v rest ow m g).
Proof. exact wait_fg_o_is_wait_fg_job. Qed.

(** C06's model has no ECHILD answer (running out of statuses is what the injection hook
    turns into ECHILD): where [Jobs.wait_loop] ends blocked, the oracle loop given the
    same statuses and then ECHILD returns with that shell and that status. *)
Theorem C07_wait_o_echild_is_jobs_blocked : forall c gid pids v rest ow m g evs fuel kk w we status post,
  (length evs < fuel)%nat ->
  w_blocked (Jobs.wait_loop evs (shl kk) gid pids (last pids 0) (length pids) w status) = true ->
  exists s',
    wait_o c fuel (map RStatus evs ++ REchild :: post) kk gid pids w v rest ow m g we status =
      WReturned s' (w_status (Jobs.wait_loop evs (shl kk) gid pids (last pids 0) (length pids) w status)) post /\
    shl (k s') = w_sh (Jobs.wait_loop evs (shl kk) gid pids (last pids 0) (length pids) w status).
Proof. exact wait_o_echild_is_blocked. Qed.

(** The third transcription, [Model.WaitFg.wait_loop] (C02's, over raw (pid, kind, val)
    triples, tied in-process by C02's harness): on the encoded statuses ([WaitFgJobs.enc]) it
    returns the same cmd_result.status and leaves the same statuses as [Jobs.wait_loop], from
    any settled set / status, when no member has pid 0 (the [is_exited] quirk). So
    Term.settle = wait_o = Jobs.wait_loop = WaitFg.wait_loop on status and consumption. *)
Theorem C07_waitfg_is_jobs_wait_loop : forall pids pl cc gid, ~ In 0 pids ->
  forall evs s status settled consumed side,
  WaitFg.r_status (WaitFg.wait_loop pids pl cc (map WaitFgJobs.enc evs) status settled consumed side) =
    Jobs.w_status (Jobs.wait_loop evs s gid pids pl cc settled status) /\
  WaitFg.r_left (WaitFg.wait_loop pids pl cc (map WaitFgJobs.enc evs) status settled consumed side) =
    map WaitFgJobs.enc (Jobs.w_left (Jobs.wait_loop evs s gid pids pl cc settled status)).
Proof. exact WaitFgJobs.waitfg_is_jobs. Qed.

(** ---------- round 9, third part: the wait RESUMED after kernel actions (Proofs/WaitResume.v).
    [okp pr]: the process is not plainly running: reaped, zombie, stopped, or running with its
    continuation not yet reported by waitpid ([pnote = NCont], the one unreported change).
    [WIst s]: in mode Waiting the settled set is duplicate-free, within the members, and every
    pid in it has an [okp] process in [procs]. *)

(** The invariant holds in EVERY reachable state of the session machine: through launches,
    fg / bg / jobs, polls, keys, exits and signals of single processes, and every resumption of
    a wait. No hypothesis. *)
Theorem C07_settled_members_invariant : forall c acts, WIst (Term.run c acts).
Proof. exact run_WI. Qed.
Check C07_settled_members_invariant : forall c acts, WIst (Term.run c acts).

(** every kernel action of the machine is a [kchange]: keeps pids, keeps [okp] *)
Theorem C07_kernel_actions_kchange :
  (forall pid sig, kchange (fun p => if ppid p =? pid then deliver sig p else p)) /\
  (forall pid code, kchange (fun p => if ppid p =? pid then do_exit code p else p)) /\
  (forall g sig, kchange (fun p => if ppgid p =? g then deliver sig p else p)).
Proof.
  split; [|split]; intros; apply cond_kchange; first [apply deliver_kchange|apply do_exit_kchange].
Qed.

(** A wait of a reachable state (any accumulated settled set and consumed statuses), resumed
    after any kernel change [F] with ANY fuel: if [settle] comes back out of the loop, the owner
    is the shell (when the terminal had been handed over) and every member of the job has an
    [okp] process in [procs] -- or the loop broke on ECHILD and every process is reaped. *)
Theorem C07_resumed_wait_returns_settled : forall c acts gid pids w v rest F fuel,
  md (Term.run c acts) = Waiting gid pids w v rest -> kchange F ->
  let s0 := Term.run c acts in
  let s1 := settle c fuel (mkst (mkcore (map F (procs (k s0))) (shl (k s0)) []) (md s0) (owner s0) (smask s0) (gh s0) (wevs s0)) in
  md s1 = Between rest ->
  owner s1 = (if back v then c_sh c else owner s0) /\
  ((forall p, In p pids -> has_okp (procs (k s1)) p) \/ all_gone (procs (k s1)) = true).
Proof. exact resumed_wait_returns_settled. Qed.
Check C07_resumed_wait_returns_settled : forall c acts gid pids w v rest F fuel,
  md (Term.run c acts) = Waiting gid pids w v rest -> kchange F ->
  let s0 := Term.run c acts in
  let s1 := settle c fuel (mkst (mkcore (map F (procs (k s0))) (shl (k s0)) []) (md s0) (owner s0) (smask s0) (gh s0) (wevs s0)) in
  md s1 = Between rest ->
  owner s1 = (if back v then c_sh c else owner s0) /\
  ((forall p, In p pids -> has_okp (procs (k s1)) p) \/ all_gone (procs (k s1)) = true).

(** Session level, with C07_full_holds: with a tty, while a reachable state waits on job
    [gid] the terminal is the job's; and at the moment the resumed wait comes back (mode
    Between: the shell goes on with the line, then the prompt) the terminal is the shell's
    (when handed over) and no member is plainly running. *)
Theorem C07_terminal_follows_settledness : forall c acts gid pids w v rest F fuel,
  tty c = true ->
  md (Term.run c acts) = Waiting gid pids w v rest -> kchange F ->
  let s0 := Term.run c acts in
  let s1 := settle c fuel (mkst (mkcore (map F (procs (k s0))) (shl (k s0)) []) (md s0) (owner s0) (smask s0) (gh s0) (wevs s0)) in
  owner s0 = gid /\
  (md s1 = Between rest ->
   owner s1 = (if back v then c_sh c else gid) /\
   ((forall p, In p pids -> has_okp (procs (k s1)) p) \/ all_gone (procs (k s1)) = true)).
Proof.
  intros c acts gid pids w v rest F fuel T M K s0 s1.
  assert (O : owner s0 = gid) by (eapply wait_owner; eauto).
  split; [exact O|]. intros B. rewrite <- O. apply (resumed_wait_returns_settled c acts gid pids w v rest F fuel M K B).
Qed.

(** non-vacuity: the count_waited session (101 stopped, continued, exited: settled set [101],
    102 runs, the job has the terminal); 102 exits: the wait comes back, owner 1 *)
Example C07_resumed_nonvacuous :
  let s0 := Term.run cfg0 w_count_waited in
  let F := fun p => if ppid p =? 102 then do_exit 0 p else p in
  let s1 := settle cfg0 3 (mkst (mkcore (map F (procs (k s0))) (shl (k s0)) []) (md s0) (owner s0) (smask s0) (gh s0) (wevs s0)) in
  md s0 = Waiting 101 [101; 102] [101] (VLaunch true) [] /\ owner s0 = 101 /\ kchange F /\
  md s1 = Between [] /\ owner s1 = 1 /\ map Term.pst (procs (k s1)) = [PGone; PGone].
Proof.
  split; [vm_compute; reflexivity|]. split; [vm_compute; reflexivity|].
  split; [apply cond_kchange; apply do_exit_kchange|]. vm_compute. repeat split.
Qed.

(** WaitFg's [r_consumed]: statuses consumed + statuses C06's loop leaves = statuses delivered
    (whatever the two status registers hold). *)
Theorem C07_waitfg_consumed : forall pids pl cc gid evs s status status2 settled consumed side,
  (WaitFg.r_consumed (WaitFg.wait_loop pids pl cc (map WaitFgJobs.enc evs) status settled consumed side) +
   length (Jobs.w_left (Jobs.wait_loop evs s gid pids pl cc settled status2)) = consumed + length evs)%nat.
Proof. exact WaitFgJobs.waitfg_consumed. Qed.

(** WaitFg's error answers (kind 255, errno [v]; C06's model has none): after statuses on which
    C06's loop is still blocked the loop breaks at the error; ECHILD keeps the status C06's loop
    holds, any other errno becomes the status; the error is consumed, the rest is left. *)
Theorem C07_waitfg_error_after_blocked : forall pids pl cc gid, ~ In 0 pids ->
  forall evs s status settled consumed side p v post,
  Jobs.w_blocked (Jobs.wait_loop evs s gid pids pl cc settled status) = true ->
  let r := WaitFg.wait_loop pids pl cc (map WaitFgJobs.enc evs ++ (p, 255, v) :: post) status settled consumed side in
  WaitFg.r_status r =
    (if v =? WaitFg.ECHILD then Jobs.w_status (Jobs.wait_loop evs s gid pids pl cc settled status) else v) /\
  WaitFg.r_left r = post /\ WaitFg.r_consumed r = (consumed + S (length evs))%nat.
Proof. exact WaitFgJobs.waitfg_error_after_blocked. Qed.

Print Assumptions C07_prompt_owner.
Print Assumptions C07_owner_cases.
Print Assumptions C07_bg_never_owner.
Print Assumptions C07_groups_fixed.
Print Assumptions C07_full_holds.
Print Assumptions C07_mask_initial.
Print Assumptions C07_give_terminal_mask.
Print Assumptions C07_simulation.
Print Assumptions C07_wait_exact.
Print Assumptions C07_jobs_exact.
Print Assumptions C07_wait_returns_settled.
Print Assumptions C07_wait_gives_back_terminal.
Print Assumptions C07_wait_fuel_suffices.
Print Assumptions C07_settle_is_oracle_wait.
Print Assumptions C07_wait_returns_settled_fg.
Print Assumptions C07_kernel_K4.
Print Assumptions C07_kernel_truthful.
Print Assumptions C07_settle_returns_settled.
Print Assumptions C07_wait_o_is_jobs_wait_loop.
Print Assumptions C07_wait_fg_o_is_jobs_wait_fg_job.
Print Assumptions C07_wait_o_echild_is_jobs_blocked.
Print Assumptions C07_waitfg_is_jobs_wait_loop.
Print Assumptions C07_settled_members_invariant.
Print Assumptions C07_resumed_wait_returns_settled.
Print Assumptions C07_terminal_follows_settledness.
Print Assumptions C07_kernel_actions_kchange.
Print Assumptions C07_waitfg_consumed.
Print Assumptions C07_waitfg_error_after_blocked.
