(** C07 -- the terminal belongs to the foreground job while it runs, else to the shell.
    PARTIAL: a bookkeeping model (Model/Term.v); the kernel rules K1-K6 listed
    there are assumptions. Statements only; proofs are in Proofs/TermProofs.v. *)
From Coq Require Import ZArith List Bool.
From Cicada Require Import Model.Jobs Model.Term Proofs.TermProofs.
Import ListNotations.
Local Open Scope Z_scope.

(** At every prompt the terminal's foreground group is the shell's: every
    action list, every schedule (oracle bits), every configuration. *)
Theorem C07_prompt_owner : forall c acts,
  md (Term.run c acts) = AtPrompt -> owner (Term.run c acts) = c_sh c.
Proof. exact prompt_owner. Qed.
Check C07_prompt_owner : forall c acts,
  md (Term.run c acts) = AtPrompt -> owner (Term.run c acts) = c_sh c.

(** Nobody but the shell or the job being waited for ever owns the terminal. *)
Theorem C07_owner_cases : forall c acts,
  owner (Term.run c acts) = c_sh c \/
  exists pids w v, md (Term.run c acts) = Waiting (owner (Term.run c acts)) pids w v.
Proof. exact owner_cases. Qed.

(** A job launched with & (typed at the prompt) is never the owner as long as
    no later action is an fg (or re-uses its leader's pid for a new launch). *)
Theorem C07_bg_never_owner : forall c pre pids tc jn post,
  hd 0 pids <> c_sh c ->
  md (Term.run c pre) = AtPrompt ->
  forallb (fun a => negb (may_fg (hd 0 pids) a)) post = true ->
  owner (Term.run c (pre ++ ALaunch pids true tc jn :: post)) <> hd 0 pids.
Proof. exact bg_never_owner. Qed.
Check C07_bg_never_owner : forall c pre pids tc jn post,
  hd 0 pids <> c_sh c -> md (Term.run c pre) = AtPrompt ->
  forallb (fun a => negb (may_fg (hd 0 pids) a)) post = true ->
  owner (Term.run c (pre ++ ALaunch pids true tc jn :: post)) <> hd 0 pids.

(** No action moves a process to another group; only a launch typed at the
    prompt adds processes, and exactly those of [new_groups]. *)
Theorem C07_groups_fixed : forall c s a, groups (Term.step c s a) = groups s ++ added c s a.
Proof. exact step_groups. Qed.

(** Full statement of the two schedule-dependent clauses: while the shell
    waits on job J the owner is gid J, and every process sits in the group led
    by the first stage of its pipeline. *)
Definition C07_holds (c : cfg) (acts : list action) : Prop :=
  (forall g pids w v, md (Term.run c acts) = Waiting g pids w v -> owner (Term.run c acts) = g) /\
  Forall (led acts) (groups (Term.run c acts)).

Definition C07_full : Prop := forall c acts, tty c = true -> C07_holds c acts.

(** the failing classes: a launch whose tcsetpgrp failed (K6), or one of whose
    later stages ran setpgid before stage 0 had created the group (K5) *)
Definition Known_C07 (acts : list action) : bool := negb (all_tc acts && all_joined acts).

Definition cfg0 := mkcfg 1 true true.
Definition w_stray := [ALaunch [101; 102] false true [false]].
Definition w_tc := [ALaunch [101] false false []].

Theorem C07_refuted : ~ C07_full.
Proof.
  intro H. destruct (H cfg0 w_stray eq_refl) as [_ F].
  vm_compute in F. inversion F as [|q l _ F2]; subst. inversion F2 as [|q2 l2 L _]; subst.
  destruct L as [pids [bg [tc [jn [I [_ E]]]]]].
  destruct I as [I|[]]. inversion I; subst. cbn in E. discriminate.
Qed.

(** the stage that lost the race sits in the shell's group (1), so Ctrl-C does
    not reach it and the shell keeps waiting; with the race won the prompt returns *)
Theorem C07_refuted_stray :
  Known_C07 w_stray = true /\
  groups (Term.run cfg0 w_stray) = [(101, 101); (102, 1)] /\
  (exists w, md (Term.run cfg0 (w_stray ++ [ACtrlC])) = Waiting 101 [101; 102] w (VLaunch true)) /\
  map pst (procs (k (Term.run cfg0 (w_stray ++ [ACtrlC])))) = [PGone; PRun] /\
  md (Term.run cfg0 [ALaunch [101; 102] false true [true]; ACtrlC]) = AtPrompt.
Proof. vm_compute. repeat split. eexists; reflexivity. Qed.

(** where tcsetpgrp to a not yet existing group fails, the job runs without the terminal *)
Theorem C07_refuted_tc :
  Known_C07 w_tc = true /\
  (exists w, md (Term.run cfg0 w_tc) = Waiting 101 [101] w (VLaunch false)) /\
  owner (Term.run cfg0 w_tc) = 1.
Proof. vm_compute. repeat split. eexists; reflexivity. Qed.

Theorem C07_partial : forall c acts, tty c = true -> Known_C07 acts = false -> C07_holds c acts.
Proof.
  intros c acts T K. unfold Known_C07 in K. apply negb_false_iff, andb_true_iff in K as [K1 K2].
  split.
  - intros g pids w v M. eapply wait_owner; eauto.
  - apply one_group; auto.
Qed.
Check C07_partial : forall c acts, tty c = true -> Known_C07 acts = false -> C07_holds c acts.

(** inherited from C06 (count_waited), seen from the terminal: the prompt
    returns, the shell owns the terminal, and a member of the foreground
    pipeline is still running, its job still listed as foreground *)
Definition w_count_waited :=
  [ALaunch [101; 102] false true [true]; ESig 101 19; ESig 101 18; EExit 101 0].
Theorem C07_refuted_count_waited :
  Known_C07 w_count_waited = false /\
  md (Term.run cfg0 w_count_waited) = AtPrompt /\ owner (Term.run cfg0 w_count_waited) = 1 /\
  map pst (procs (k (Term.run cfg0 w_count_waited))) = [PGone; PRun] /\
  map (fun j => (jpids j, jbg j)) (Term.tab (k (Term.run cfg0 w_count_waited))) = [([102], false)].
Proof. vm_compute. repeat split. Qed.

(** non-vacuity: a session through bg launch, fg launch, Ctrl-Z, jobs, fg, Ctrl-C, bg, kill *)
Definition w_session :=
  [ALaunch [101; 102] true true [true; true]; ALaunch [103] false true []; ACtrlZ; AJobs;
   AFg (Some 2) 0; ACtrlC; ESig 101 19; ESig 102 19; AEmpty; ABg None 1; ESig 101 9; ESig 102 15; AEmpty].
Example C07_nonvacuous :
  Known_C07 w_session = false /\
  map (fun s => (wgid (md s), owner s)) (Term.trace cfg0 (init cfg0) w_session) =
    [(None, 1); (Some 103, 103); (None, 1); (None, 1); (Some 103, 103); (None, 1); (None, 1); (None, 1);
     (None, 1); (None, 1); (None, 1); (None, 1); (None, 1)] /\
  map pst (procs (k (nth 4 (Term.trace cfg0 (init cfg0) w_session) (init cfg0)))) = [PRun; PRun; PRun] /\
  outs (k (Term.run cfg0 w_session)) = [ODone 1 101 15].
Proof. vm_compute. repeat split. Qed.

Print Assumptions C07_prompt_owner.
Print Assumptions C07_owner_cases.
Print Assumptions C07_bg_never_owner.
Print Assumptions C07_groups_fixed.
Print Assumptions C07_refuted.
Print Assumptions C07_refuted_stray.
Print Assumptions C07_refuted_tc.
Print Assumptions C07_partial.
Print Assumptions C07_refuted_count_waited.
