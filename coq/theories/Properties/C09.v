(** C09 -- variables, exported environment and working directory follow the scoping rules.
    Statements only; proofs are in Proofs/VarsProofs.v.
    Model/Vars.v      transcription of the shell (state: shell-local map, ordered process
                      environment, cwd, previous_dir; run_proc, export, unset, read, cd, child env)
    Model/VarsSpec.v  the abstract store of the property (name -> (value, exported?), cwd, oldpwd),
                      its operations and observations, the rendering of an operation as tokens,
                      the decidable classes of known deviations. *)
From Cicada Require Import Base.Chars Model.Vars Model.VarsSpec Proofs.VarsProofs.
Local Open Scope N_scope.

(** The abstraction function relates every state whose environment has no duplicate names. *)
Theorem C09_abs : forall c, NoDup (map fst (envp c)) -> R c (abs c).
Proof. exact R_abs. Qed.

(** Every operation outside the known classes commutes with the abstraction and produces
    the specified observation, for every file system. *)
Theorem C09_step : forall w c a o, R c a -> wf_op o = true -> known w a o = None ->
  R (fst (step w c (render o))) (fst (spec_step w a o)) /\
  obs_ok (snd (spec_step w a o)) (snd (step w c (render o))).
Proof. exact sim_step. Qed.

(** Full statement: for every history of well-formed operations, what expansions and children
    observe is what the abstract store prescribes. *)
Definition C09_full : Prop := forall w c ops,
  NoDup (map fst (envp c)) -> forallb wf_op ops = true ->
  Forall2 obs_ok (snd (spec_hist w (abs c) ops)) (snd (run_hist w c (map render ops))).

(** Unbounded partial statement: histories of any length that never enter a known class. *)
Theorem C09_partial : forall w c ops,
  NoDup (map fst (envp c)) -> forallb wf_op ops = true -> known_hist w (abs c) ops = false ->
  Forall2 obs_ok (snd (spec_hist w (abs c) ops)) (snd (run_hist w c (map render ops))) /\
  R (fst (run_hist w c (map render ops))) (fst (spec_hist w (abs c) ops)).
Proof. exact partial_from_abs. Qed.

Check C09_step : forall w c a o, R c a -> wf_op o = true -> known w a o = None ->
  R (fst (step w c (render o))) (fst (spec_step w a o)) /\
  obs_ok (snd (spec_step w a o)) (snd (step w c (render o))).
Check C09_partial : forall w c ops,
  NoDup (map fst (envp c)) -> forallb wf_op ops = true -> known_hist w (abs c) ops = false ->
  Forall2 obs_ok (snd (spec_hist w (abs c) ops)) (snd (run_hist w c (map render ops))) /\
  R (fst (run_hist w c (map render ops))) (fst (spec_hist w (abs c) ops)).

(* ---- refutations: one concrete history per known class *)
Definition w_none : world := mkworld (fun _ => false) (fun _ => None) (fun _ => false) (fun v => v).
Definition w_all : world := mkworld (fun _ => true) (fun p => Some p) (fun _ => true) (fun v => v).
Definition c_root : st := mkst [] [] [c_slash] [].
Definition nA : str := [65]. Definition nB : str := [66].
Definition hp : str := [47; 104; 112].

(** export A=1; A=2 /hp  -- the child finds A=1 and A=2, in that order *)
Definition ops_prefix : list op :=
  [Export [mkasg nA [49] QBare]; Prefixed [mkasg nA [50] QBare] hp []].
Theorem C09_refuted : ~ C09_full.
Proof.
  intro H. specialize (H w_none c_root ops_prefix (NoDup_nil _) eq_refl).
  pose proof (Forall2_nth_ok _ _ _ H 1%nat (SStatus true) OPanic ltac:(vm_compute; auto)) as H1.
  vm_compute in H1. destruct H1 as (_ & _ & H1). specialize (H1 nA). vm_compute in H1. discriminate.
Qed.

(** IFS=':'; export IFS=','; read A B <<< 'x:y,z'; $A  -- read still splits at the colon *)
Definition ops_ifs : list op :=
  [Assign [mkasg s_IFS [58] QSq]; Export [mkasg s_IFS [44] QSq];
   Read [] [nA; nB] [120; 58; 121; 44; 122]; Ref nA].
Theorem C09_refuted_ifs_shadowed :
  forallb wf_op ops_ifs = true /\
  ~ Forall2 obs_ok (snd (spec_hist w_none (abs c_root) ops_ifs)) (snd (run_hist w_none c_root (map render ops_ifs))).
Proof.
  split; [reflexivity|]. intro H.
  pose proof (Forall2_nth_ok _ _ _ H 3%nat (SStatus true) OPanic ltac:(vm_compute; auto)) as H1.
  vm_compute in H1. discriminate.
Qed.

(** IFS=':' read A B <<< 'x:y:z'; $B  -- B is rebuilt with a blank *)
Definition ops_rejoin : list op :=
  [Read [mkasg s_IFS [58] QSq] [nA; nB] [120; 58; 121; 58; 122]; Ref nB].
Theorem C09_refuted_read_rejoined :
  forallb wf_op ops_rejoin = true /\
  ~ Forall2 obs_ok (snd (spec_hist w_none (abs c_root) ops_rejoin)) (snd (run_hist w_none c_root (map render ops_rejoin))).
Proof.
  split; [reflexivity|]. intro H.
  pose proof (Forall2_nth_ok _ _ _ H 1%nat (SStatus true) OPanic ltac:(vm_compute; auto)) as H1.
  vm_compute in H1. discriminate.
Qed.

(** export HOME=/x (no such path); cd  -- the shell dies instead of failing *)
Definition ops_cd_missing : list op := [Export [mkasg s_HOME [47; 120] QBare]; Cd None].
Theorem C09_refuted_cd_home_missing :
  forallb wf_op ops_cd_missing = true /\
  snd (run_hist w_none c_root (map render ops_cd_missing)) = [OStatus true; OPanic] /\
  snd (spec_hist w_none (abs c_root) ops_cd_missing) = [SStatus true; SStatus false].
Proof. vm_compute. repeat split. Qed.

(** cd with HOME not in the environment: specified to fail, the shell reports success *)
Definition ops_cd_nohome : list op := [Cd None].
Theorem C09_refuted_cd_home_not_exported :
  forallb wf_op ops_cd_nohome = true /\
  snd (run_hist w_all c_root (map render ops_cd_nohome)) = [OStatus true] /\
  snd (spec_hist w_all (abs c_root) ops_cd_nohome) = [SStatus false].
Proof. vm_compute. repeat split. Qed.

(** Non-vacuity: a history through every kind of operation that meets the hypotheses of
    C09_partial, with the observations it produces.
      B='x y'; export A="p:q"; C=2 /hp; A=3; read B C <<< 'u v w'; unset A; cd /d; cd -; $B $C $PWD *)
Definition w_d : world :=
  mkworld (fun p => str_eqb p [47; 100] || str_eqb p [47]) (fun p => Some p) (fun _ => true) (fun v => v).
Definition ops_ok : list op :=
  [Assign [mkasg nB [120; 32; 121] QSq]; Export [mkasg nA [112; 58; 113] QDq];
   Prefixed [mkasg [67] [50] QBare] hp []; Assign [mkasg nA [51] QBare];
   Read [] [nB; [67]] [117; 32; 118; 32; 119]; Unset nA; Cd (Some [47; 100]); Cd (Some s_dash);
   Ref nB; Ref [67]; Ref s_PWD; Ref nA].
Example C09_nonvacuous :
  forallb wf_op ops_ok = true /\ known_hist w_d (abs c_root) ops_ok = false /\
  (let outs := snd (run_hist w_d c_root (map render ops_ok)) in
   nth 2 outs OPanic = OChild [hp] [(nA, [112; 58; 113]); ([67], [50])] [47] /\
   skipn 6 outs = [OStatus true; OStatus true; OVal (Some [117]); OVal (Some [118; 32; 119]);
                   OVal (Some [47]); OVal None]).
Proof. vm_compute. repeat split. Qed.

Print Assumptions C09_abs.
Print Assumptions C09_step.
Print Assumptions C09_partial.
Print Assumptions C09_refuted.
Print Assumptions C09_refuted_ifs_shadowed.
Print Assumptions C09_refuted_read_rejoined.
Print Assumptions C09_refuted_cd_home_missing.
Print Assumptions C09_refuted_cd_home_not_exported.
