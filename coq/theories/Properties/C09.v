(** C09 -- variables, exported environment and working directory follow the scoping rules.
    Statements only; proofs are in Proofs/VarsProofs.v.
    Model/Vars.v      transcription of the shell (state: shell-local map, ordered process
                      environment, cwd, previous_dir; run_proc, export, unset, read, cd, child env)
    Model/VarsSpec.v  the abstract store of the property (name -> (value, exported?), cwd, oldpwd),
                      its operations and observations, the rendering of an operation as tokens,
                      the decidable classes of known deviations. *)
From Cicada Require Import Base.Chars Model.Vars Model.VarsSpec Proofs.VarsProofs.
Local Open Scope N_scope.

(** States of the repaired shell: no name twice in the environment, and no stale shell-local IFS
    behind an exported IFS (export removes the local binding).  A fresh shell is such a state. *)
Definition wf_state (c : st) : Prop :=
  NoDup (map fst (envp c)) /\ (aget (envp c) s_IFS <> None -> aget (locals c) s_IFS = None).

(** The abstraction function relates every state whose environment has no duplicate names. *)
Theorem C09_abs : forall c, NoDup (map fst (envp c)) -> R c (abs c).
Proof. exact R_abs. Qed.

(** Every operation commutes with the abstraction and produces the specified observation, for
    every file system, and keeps the invariant. *)
Theorem C09_step : forall w c a o, R c a -> shadow_free a -> wf_op o = true ->
  R (fst (step w c (render o))) (fst (spec_step w a o)) /\
  obs_ok (snd (spec_step w a o)) (snd (step w c (render o))).
Proof. exact sim_step. Qed.

Theorem C09_step_invariant : forall w a o, shadow_free a -> shadow_free (fst (spec_step w a o)).
Proof. exact step_shadow_free. Qed.

(** FULL STATEMENT, no excluded class: for every file system, every such state and every history
    (of any length) of well-formed operations -- assignment, prefixed program, export, unset,
    read, cd in all its forms, reference -- what expansions and started programs observe (every
    environ entry, cwd, statuses) is what the abstract store name -> (value, exported?) x cwd x
    oldpwd prescribes, and the final states are related. *)
Theorem C09_full : forall w c ops,
  wf_state c -> forallb wf_op ops = true ->
  Forall2 obs_ok (snd (spec_hist w (abs c) ops)) (snd (run_hist w c (map render ops))) /\
  R (fst (run_hist w c (map render ops))) (fst (spec_hist w (abs c) ops)).
Proof. intros w c ops [H1 H2]. now apply full_from_abs. Qed.

(** $PWD is the working directory for as long as no operation names PWD. *)
Theorem C09_pwd : forall w c ops,
  wf_state c -> forallb wf_op ops = true ->
  aget (envp c) s_PWD = Some (cwd c) -> forallb (fun o => negb (touches s_PWD o)) ops = true ->
  let c' := fst (run_hist w c (map render ops)) in expand_lookup c' s_PWD = Some (cwd c').
Proof. intros w c ops [H1 H2]. now apply pwd_follows_cwd. Qed.

(** "the remainder in the last": the last name of read receives a contiguous piece of the input
    line (nothing rebuilt), for every IFS and every number of names. *)
Theorem C09_read_remainder_verbatim : forall dflt seps k x,
  exists p q, x = p ++ last (cut_runs dflt seps k (Some x)) [] ++ q.
Proof. exact cut_runs_last_infix. Qed.

Check C09_step : forall w c a o, R c a -> shadow_free a -> wf_op o = true ->
  R (fst (step w c (render o))) (fst (spec_step w a o)) /\
  obs_ok (snd (spec_step w a o)) (snd (step w c (render o))).
Check C09_full : forall w c ops,
  wf_state c -> forallb wf_op ops = true ->
  Forall2 obs_ok (snd (spec_hist w (abs c) ops)) (snd (run_hist w c (map render ops))) /\
  R (fst (run_hist w c (map render ops))) (fst (spec_hist w (abs c) ops)).

(* ---- the five repaired defects as regression examples: model = specification on the old witnesses *)
Definition w_none : world := mkworld (fun _ => false) (fun _ => None) (fun _ => false) (fun v => v).
Definition w_all : world := mkworld (fun _ => true) (fun p => Some p) (fun _ => true) (fun v => v).
Definition c_root : st := mkst [] [] [c_slash] [].
Definition nA : str := [65]. Definition nB : str := [66].
Definition hp : str := [47; 104; 112].
Definition outs (w : world) (ops : list op) : list outcome := snd (run_hist w c_root (map render ops)).

(** 729671e  export A=1; A=2 /hp : the child finds exactly A=2 *)
Example C09_regress_prefix_over_exported :
  outs w_none [Export [mkasg nA [49] QBare]; Prefixed [mkasg nA [50] QBare] hp []]
  = [OStatus true; OChild [hp] [(nA, [50])] [47]].
Proof. vm_compute. reflexivity. Qed.

(** 217a8a1  IFS=':'; export IFS=','; read A B <<< 'x:y,z'; $A $B : split at the comma *)
Example C09_regress_ifs_shadowed :
  outs w_none [Assign [mkasg s_IFS [58] QSq]; Export [mkasg s_IFS [44] QSq];
               Read [] [nA; nB] [120; 58; 121; 44; 122]; Ref nA; Ref nB]
  = [OStatus true; OStatus true; OStatus true; OVal (Some [120; 58; 121]); OVal (Some [122])].
Proof. vm_compute. reflexivity. Qed.

(** 6cce60d  IFS=':' read A B <<< 'x:y:z'; $B : y:z ;  read A B <<< 'x  y   z ' : A=x, B=y   z *)
Example C09_regress_read_rejoined :
  outs w_none [Read [mkasg s_IFS [58] QSq] [nA; nB] [120; 58; 121; 58; 122]; Ref nB]
  = [OStatus true; OVal (Some [121; 58; 122])] /\
  outs w_none [Read [] [nA; nB] [120; 32; 32; 121; 32; 32; 32; 122; 32]; Ref nA; Ref nB]
  = [OStatus true; OVal (Some [120]); OVal (Some [121; 32; 32; 32; 122])].
Proof. vm_compute. split; reflexivity. Qed.

(** aace31b  export HOME=/x (missing); cd : status 1, no panic.   5a6a746  cd without HOME : status 1 *)
Example C09_regress_cd_home :
  outs w_none [Export [mkasg s_HOME [47; 120] QBare]; Cd None] = [OStatus true; OStatus false] /\
  outs w_all [Cd None] = [OStatus false].
Proof. vm_compute. split; reflexivity. Qed.

(** Non-vacuity: a history through every kind of operation that meets the hypotheses of
    C09_full and C09_pwd, with the observations it produces.
      B='x y'; export A="p:q"; A=2 /hp; A=3; read B C <<< 'u v w'; unset A; cd /d; cd -; export HOME=/nope; cd;
      $B $C $PWD $A
    (A=2 /hp with A exported: the child finds exactly A=2; cd with a missing HOME: status 1.) *)
Definition w_d : world :=
  mkworld (fun p => str_eqb p [47; 100] || str_eqb p [47]) (fun p => Some p) (fun _ => true) (fun v => v).
Definition c_start : st := mkst [] [(s_PWD, [47])] [47] [].
Definition ops_ok : list op :=
  [Assign [mkasg nB [120; 32; 121] QSq]; Export [mkasg nA [112; 58; 113] QDq];
   Prefixed [mkasg nA [50] QBare] hp []; Assign [mkasg nA [51] QBare];
   Read [] [nB; [67]] [117; 32; 118; 32; 119]; Unset nA; Cd (Some [47; 100]); Cd (Some s_dash);
   Export [mkasg s_HOME [47; 110; 111; 112; 101] QBare]; Cd None;
   Ref nB; Ref [67]; Ref s_PWD; Ref nA].
Example C09_nonvacuous :
  forallb wf_op ops_ok = true /\ wf_state c_start /\
  aget (envp c_start) s_PWD = Some (cwd c_start) /\
  forallb (fun o => negb (touches s_PWD o)) ops_ok = true /\
  (let outs := snd (run_hist w_d c_start (map render ops_ok)) in
   nth 2 outs OPanic = OChild [hp] [(s_PWD, [47]); (nA, [50])] [47] /\
   skipn 6 outs = [OStatus true; OStatus true; OStatus true; OStatus false; OVal (Some [117]);
                   OVal (Some [118; 32; 119]); OVal (Some [47]); OVal None]).
Proof.
  split; [reflexivity|]. split.
  { split; [|intro H; exfalso; apply H; reflexivity].
    constructor; [intros []|constructor]. }
  vm_compute. repeat split.
Qed.

(** Round 9: [Vars.is_env] (model of tools::is_env, the assignment test in front of a command line) IS the regex of
    the source: equal, on every text, to the search of the AST regenerated from tools.rs on every run
    (Gen/ToolsRegexes.v via drive/regexsites.py) -- a changed literal breaks this proof. *)
From Cicada Require Import Base.Regex Gen.ToolsRegexes Proofs.ToolsRegexProofs.
Theorem C09_is_env_is_source_regex : forall s, is_env s = rx_search rx_is_env s.
Proof. exact is_env_is_source_regex. Qed.
Check C09_is_env_is_source_regex : forall s, is_env s = rx_search rx_is_env s.
(** non-vacuity:  _a1=x<newline>y  yes;  1a=x  no;  a-b=x  no;  a  no *)
Example C09_source_regex_nonvacuous :
  rx_search rx_is_env [95;97;49;61;120;10;121] = true /\ rx_search rx_is_env [49;97;61;120] = false /\
  rx_search rx_is_env [97;45;98;61;120] = false /\ rx_search rx_is_env [97] = false.
Proof. vm_compute. repeat split. Qed.

(** Round 9 (continued): read.rs identifier test; the assignment patterns of export.rs and execute.rs drain_env_tokens
    (yes/no decision of [split_env_strict]; the captured name / value are what the model returns). ASTs regenerated from
    the source on every run (Gen/BuiltinRegexes.v). *)
From Cicada Require Import Gen.BuiltinRegexes Proofs.BuiltinRegexProofs.
Theorem C09_read_ident_is_source_regex : forall s, valid_ident s = rx_search rx_read_ident s.
Proof. exact valid_ident_is_source_regex. Qed.
Theorem C09_export_name_is_source_regex : forall s,
  (match split_env_strict s with Some _ => true | None => false end) = rx_search rx_export_name s.
Proof. exact export_name_is_source_regex. Qed.
Theorem C09_exec_env_is_source_regex : forall s,
  (match split_env_strict s with Some _ => true | None => false end) = rx_search rx_exec_env s.
Proof. exact exec_env_is_source_regex. Qed.
Check C09_read_ident_is_source_regex : forall s, valid_ident s = rx_search rx_read_ident s.
Check C09_export_name_is_source_regex : forall s,
  (match split_env_strict s with Some _ => true | None => false end) = rx_search rx_export_name s.
Check C09_exec_env_is_source_regex : forall s,
  (match split_env_strict s with Some _ => true | None => false end) = rx_search rx_exec_env s.
Example C09_source_regex_nonvacuous2 :
  rx_search rx_read_ident [95;97;49] = true /\ rx_search rx_read_ident [49;97] = false /\
  rx_search rx_export_name [97;61] = true /\ rx_search rx_exec_env [61;97] = false.
Proof. vm_compute. repeat split. Qed.

Print Assumptions C09_abs.
Print Assumptions C09_step.
Print Assumptions C09_step_invariant.
Print Assumptions C09_full.
Print Assumptions C09_pwd.
Print Assumptions C09_read_remainder_verbatim.
Print Assumptions C09_is_env_is_source_regex.
Print Assumptions C09_read_ident_is_source_regex.
Print Assumptions C09_export_name_is_source_regex.
Print Assumptions C09_exec_env_is_source_regex.
