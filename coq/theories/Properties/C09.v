(** C09 -- variables, exported environment and working directory follow the scoping rules.
    Statements only; proofs are in Proofs/VarsProofs.v.
    Model/Vars.v      transcription of the shell (state: shell-local map, ordered process
                      environment, cwd, previous_dir; run_proc, export, unset, read, cd, child env)
    Model/VarsSpec.v  the abstract store of the property (name -> (value, exported?), cwd, oldpwd),
                      its operations and observations, the rendering of an operation as tokens,
                      the decidable classes of known deviations. *)
From Cicada Require Import Base.Chars Model.Vars Model.VarsSpec Proofs.VarsProofs.
Local Open Scope N_scope.

(** [fx] says whether the code contains the proposed repair of read (notes/C09-fix-6.patch); the
    tree as it is does not.  The theorems hold for both settings. *)
Definition fx_tree : fixes := mkfx false.

(** The abstraction function relates every state whose environment has no duplicate names. *)
Theorem C09_abs : forall c, NoDup (map fst (envp c)) -> R c (abs c).
Proof. exact R_abs. Qed.

(** Every operation outside the known classes commutes with the abstraction and produces
    the specified observation, for every file system (this now includes NAME=v prog with NAME
    exported, and cd without argument when $HOME does not exist). *)
Theorem C09_step : forall fx w c a o, R c a -> wf_op o = true -> known fx a o = None ->
  R (fst (step fx w c (render o))) (fst (spec_step fx w a o)) /\
  obs_ok (snd (spec_step fx w a o)) (snd (step fx w c (render o))).
Proof. exact sim_step. Qed.

(** Full statement: for every history of well-formed operations, what expansions and children
    observe is what the abstract store prescribes. *)
Definition C09_full : Prop := forall w c ops,
  NoDup (map fst (envp c)) -> forallb wf_op ops = true ->
  Forall2 obs_ok (snd (spec_hist fx_tree w (abs c) ops)) (snd (run_hist fx_tree w c (map render ops))).

(** Unbounded partial statement: histories of any length that never enter a known class. *)
Theorem C09_partial : forall fx w c ops,
  NoDup (map fst (envp c)) -> forallb wf_op ops = true -> known_hist fx w (abs c) ops = false ->
  Forall2 obs_ok (snd (spec_hist fx w (abs c) ops)) (snd (run_hist fx w c (map render ops))) /\
  R (fst (run_hist fx w c (map render ops))) (fst (spec_hist fx w (abs c) ops)).
Proof. exact partial_from_abs. Qed.

(** $PWD is the working directory for as long as no operation names PWD. *)
Theorem C09_pwd : forall fx w c ops,
  NoDup (map fst (envp c)) -> forallb wf_op ops = true -> known_hist fx w (abs c) ops = false ->
  aget (envp c) s_PWD = Some (cwd c) -> forallb (fun o => negb (touches s_PWD o)) ops = true ->
  let c' := fst (run_hist fx w c (map render ops)) in expand_lookup c' s_PWD = Some (cwd c').
Proof. exact pwd_follows_cwd. Qed.

(** With the proposed repair of read the full statement holds, with the POSIX reading of the
    fields (runs of blanks separate under the default IFS, the last name gets the rest of the line
    verbatim), from every state in which an exported IFS has no shell-local IFS behind it, e.g. a
    fresh shell. *)
Theorem C09_full_after_repairs : forall w c ops,
  NoDup (map fst (envp c)) -> (aget (envp c) s_IFS <> None -> aget (locals c) s_IFS = None) ->
  forallb wf_op ops = true ->
  Forall2 obs_ok (snd (spec_hist fx_all w (abs c) ops)) (snd (run_hist fx_all w c (map render ops))).
Proof. exact full_after_repairs. Qed.

(** "the remainder in the last": in the POSIX reading the last name receives a contiguous piece
    of the input line (nothing rebuilt), for every IFS and every number of names. *)
Theorem C09_read_remainder_verbatim : forall dflt seps k x,
  exists p q, x = p ++ last (cut_runs dflt seps k (Some x)) [] ++ q.
Proof. exact cut_runs_last_infix. Qed.

Check C09_step : forall fx w c a o, R c a -> wf_op o = true -> known fx a o = None ->
  R (fst (step fx w c (render o))) (fst (spec_step fx w a o)) /\
  obs_ok (snd (spec_step fx w a o)) (snd (step fx w c (render o))).
Check C09_partial : forall fx w c ops,
  NoDup (map fst (envp c)) -> forallb wf_op ops = true -> known_hist fx w (abs c) ops = false ->
  Forall2 obs_ok (snd (spec_hist fx w (abs c) ops)) (snd (run_hist fx w c (map render ops))) /\
  R (fst (run_hist fx w c (map render ops))) (fst (spec_hist fx w (abs c) ops)).

(* ---- refutations: one concrete history per known class *)
Definition w_none : world := mkworld (fun _ => false) (fun _ => None) (fun _ => false) (fun v => v).
Definition w_all : world := mkworld (fun _ => true) (fun p => Some p) (fun _ => true) (fun v => v).
Definition c_root : st := mkst [] [] [c_slash] [].
Definition nA : str := [65]. Definition nB : str := [66].
Definition hp : str := [47; 104; 112].

(** IFS=':' read A B <<< 'x:y:z'; $B  -- B is rebuilt with a blank *)
Definition ops_rejoin : list op :=
  [Read [mkasg s_IFS [58] QSq] [nA; nB] [120; 58; 121; 58; 122]; Ref nB].
Theorem C09_refuted_read_rejoined :
  forallb wf_op ops_rejoin = true /\
  ~ Forall2 obs_ok (snd (spec_hist fx_tree w_none (abs c_root) ops_rejoin)) (snd (run_hist fx_tree w_none c_root (map render ops_rejoin))).
Proof.
  split; [reflexivity|]. intro H.
  pose proof (Forall2_nth_ok _ _ _ H 1%nat (SStatus true) OPanic ltac:(vm_compute; auto)) as H1.
  vm_compute in H1. discriminate.
Qed.

Theorem C09_refuted : ~ C09_full.
Proof.
  intro H. apply (proj2 C09_refuted_read_rejoined). apply (H w_none c_root ops_rejoin (NoDup_nil _) eq_refl).
Qed.

(** The same history after the repair: B is y:z; and blanks: read A B <<< 'x  y   z ' gives A=x, B=y   z *)
Definition ops_blanks : list op := [Read [] [nA; nB] [120; 32; 32; 121; 32; 32; 32; 122; 32]; Ref nA; Ref nB].
Example C09_read_repaired :
  snd (run_hist fx_all w_none c_root (map render ops_rejoin)) = [OStatus true; OVal (Some [121; 58; 122])] /\
  snd (run_hist fx_all w_none c_root (map render ops_blanks)) =
    [OStatus true; OVal (Some [120]); OVal (Some [121; 32; 32; 32; 122])].
Proof. vm_compute. split; reflexivity. Qed.

(** Non-vacuity: a history through every kind of operation that meets the hypotheses of
    C09_partial and C09_pwd, with the observations it produces.
      B='x y'; export A="p:q"; A=2 /hp; A=3; read B C <<< 'u v w'; unset A; cd /d; cd -; export HOME=/nope; cd;
      $B $C $PWD $A
    (A=2 /hp with A exported: the child finds exactly A=2; cd with a missing HOME: status 1.) *)
Definition w_d : world :=
  mkworld (fun p => str_eqb p [47; 100] || str_eqb p [47]) (fun p => Some p) (fun _ => true) (fun v => v).
Definition c_start : st := mkst [] [(s_PWD, [47])] [47] [].
Definition ops_ok : list op :=
  [Assign [mkasg nB [120; 32; 121] QSq]; Export [mkasg nA [112; 58; 113] QDq];
   Prefixed [mkasg nA [50] QBare] hp []; Assign [mkasg nA [51] QBare];
   Read [] [nB; [67]] [117; 32; 118; 32; 119]; Unset nA; Cd (Some [47; 100]); Cd (Some s_dash);
   Export [mkasg s_HOME [47; 110; 111; 112; 101] QBare]; Cd None;
   Ref nB; Ref [67]; Ref s_PWD; Ref nA].
Example C09_nonvacuous :
  forallb wf_op ops_ok = true /\ known_hist fx_tree w_d (abs c_start) ops_ok = false /\
  aget (envp c_start) s_PWD = Some (cwd c_start) /\
  forallb (fun o => negb (touches s_PWD o)) ops_ok = true /\
  (let outs := snd (run_hist fx_tree w_d c_start (map render ops_ok)) in
   nth 2 outs OPanic = OChild [hp] [(s_PWD, [47]); (nA, [50])] [47] /\
   skipn 6 outs = [OStatus true; OStatus true; OStatus true; OStatus false; OVal (Some [117]);
                   OVal (Some [118; 32; 119]); OVal (Some [47]); OVal None]).
Proof. vm_compute. repeat split. Qed.

Print Assumptions C09_abs.
Print Assumptions C09_step.
Print Assumptions C09_partial.
Print Assumptions C09_pwd.
Print Assumptions C09_full_after_repairs.
Print Assumptions C09_read_remainder_verbatim.
Print Assumptions C09_refuted.
Print Assumptions C09_refuted_read_rejoined.
