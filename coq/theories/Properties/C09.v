(* placeholder, replaced below *)
From Cicada Require Import Base.Chars Model.Vars Model.VarsSpec.
Theorem C09_full : True. Proof. exact I. Qed.
Definition C09_refuted := 0. Definition C09_partial := 0. Definition C09_step := 0. Definition C09_abs := 0. Definition C09_pwd := 0.
Print Assumptions C09_full.
