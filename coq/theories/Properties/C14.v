(** C14 -- scripts execute exactly the command sequence their block structure
    prescribes; unbalanced scripts are diagnosed. Statements only. *)
From Cicada Require Import Base.Chars Base.Peg Gen.LocustGrammar Model.Script Model.ScriptAst
  Proofs.ScriptProofs Proofs.PegProofs Proofs.LocustParse Proofs.LocustBlocks Proofs.LocustIndent Proofs.LocustFull
  Model.Cmds Model.ListExec Model.CondLine Proofs.ListExecProofs Proofs.CmdsProofs Proofs.CondProofs.
From Coq Require Import ZArith String Ascii.

(** 1. The interpreter of scripting.rs (run_exp and its helpers, transcribed, with the
    exit_requested tests of 05253ef), run on the ideal pair tree of a well-formed script, is the
    structured semantics -- for every world, every behaviour of commands / conditions / word
    lists, every nesting depth, inside or outside a loop, with [n] the bound on the iterations
    of one while loop on both sides, provided the recursion bound [d] exceeds the nesting
    measure; [e] says whether set -e is in effect throughout (exit_on_error reads [e] in every
    world): with e = false nothing stops the script, with e = true the reference semantics
    ends everything at the first statement whose last pipeline failed, at any depth. *)
Theorem C14_interp :
  forall (W : Type) (run_line : W -> str -> W * list Z) (for_words : W -> str -> W * list str)
         (set_var : W -> str -> str -> W) (eoe : W -> bool) (e : bool) (n : nat),
  (forall w, eoe w = e) ->
  forall b, wf_block b = true ->
  forall d in_loop w r txt, (depth_block b < d)%nat ->
  run_exp W run_line for_words set_var eoe n d (TNode r txt (kids_of_block b)) in_loop w =
  sem_block W run_line for_words set_var e n b in_loop w.
Proof. exact run_exp_sem. Qed.

(** 1b. The same under an INVARIANT of the state instead of a constant flag: if every oracle step
    (command line, word list, variable binding) preserves [Inv] and [Inv] fixes the value of
    exit_on_error, the interpreter on the ideal tree is the structured semantics from every state
    satisfying [Inv] (instance Inv := flag on, e := true: set -e switched on earlier by any step
    and never switched off -- see C15_sete_combined). *)
Theorem C14_interp_inv :
  forall (W : Type) (run_line : W -> str -> W * list Z) (for_words : W -> str -> W * list str)
         (set_var : W -> str -> str -> W) (eoe : W -> bool) (e : bool) (n : nat) (Inv : W -> Prop),
  (forall w l, Inv w -> Inv (fst (run_line w l))) ->
  (forall w t, Inv w -> Inv (fst (for_words w t))) ->
  (forall w k v, Inv w -> Inv (set_var w k v)) ->
  (forall w, Inv w -> eoe w = e) ->
  forall b, wf_block b = true ->
  forall d in_loop w r txt, (depth_block b < d)%nat -> Inv w ->
  run_exp W run_line for_words set_var eoe n d (TNode r txt (kids_of_block b)) in_loop w =
  sem_block W run_line for_words set_var e n b in_loop w.
Proof. exact run_exp_sem_inv. Qed.

(** The pair tree carries trim(as_str); since d2f4d24 run_exp / run_exp_test_br read
    trim_cmd(as_str), which is the same unless the trimmed text ends in a backslash. *)
Theorem C14_trim_cmd : forall s, count_bs (rev (trim s)) = 0%nat -> trim_cmd s = trim s.
Proof. exact trim_cmd_is_trim. Qed.

(** 2. Parser correctness, full statement (NOT proved in general: carried by the
    correspondence layer L1b on every run; instances below). *)
Definition C14_parse_full : Prop := forall b, wfp_block b = true -> parse_ok b.

Definition S2 (s : string) : str := map N_of_ascii (list_ascii_of_string s).
Definition i0 : str := nil.
Definition i2 : str := S2 "  ".
Definition it : str := (9 :: nil)%N.

(* if / else if / else, both spellings, indentation, a blank line, break and continue *)
Definition wit1 : block :=
  BCons (SCmd i0 (S2 "echo begin"))
 (BCons (SIf i2 true (S2 "test -f /x") (BCons (SCmd it (S2 "echo 'we found it'")) (BCons (SBlank i2) BNil))
           (AElif i0 false (S2 "grep -q a b") (BCons (SBreak i2) BNil)
           (AElif i2 true (S2 "false") (BCons (SCont i0) BNil)
           (AElse it (BCons (SCmd i2 (S2 "echo not found")) BNil) i2))))
 (BCons (SBlank i0)
 (BCons (SCmd i0 (S2 "echo the end")) BNil))).

(* for in both spellings, while in both spellings, nested, if without else *)
Definition wit2 : block :=
  BCons (SFor i0 true (S2 "i") (S2 "a b2 c-d")
           (BCons (SWhile i2 false (S2 "seq k 0,0,1")
                     (BCons (SIf it false (S2 "t $i") (BCons (SBreak it) BNil) (ANone it))
                     (BCons (SCmd it (S2 "echo $i")) BNil)))
           (BCons (SFor i2 false (S2 "_x1") (S2 "$NOPE") (BCons (SCont i2) BNil)) BNil)))
 (BCons (SWhile i0 true (S2 "false") (BCons (SCmd i0 (S2 "echo never")) BNil)) BNil).

Ltac prove_parse_ok :=
  unfold parse_ok;
  match goal with |- exists p kids, parse_from ?g ?s ?t = _ /\ _ =>
    let r := eval vm_compute in (parse_from g s t) in
    match r with
    | POk ?p _ ?k => exists p, k; split; vm_compute; reflexivity
    end
  end.

Theorem C14_parse_instances :
  (wfp_block wit1 = true /\ parse_ok wit1) /\ (wfp_block wit2 = true /\ parse_ok wit2).
Proof. split; split; [vm_compute; reflexivity | prove_parse_ok | vm_compute; reflexivity | prove_parse_ok]. Qed.

(** The proved fragment of C14_parse_full, UNBOUNDED ([frag_block]): the property's whole syntax-tree
    language in the newline spelling without indentation -- scripts built, to ANY nesting depth, from
      - command lines (break / continue included),
      - `if cond` NL body { `else if cond` NL body }* [ `else` NL body ] `fi`   (any number of else-if arms),
      - `for var in words` NL body `done`,
      - `while cond` NL body `done`,
    every body non-empty, no blank lines; a command line is free of CR / LF, does not start or end
    with white space and does not start with `if `, `for `, `else if `, `else`, `fi`, `while `, `done`;
    a condition / word list is one line without `;` and without white space at either end (inner
    blanks allowed); a loop variable is an identifier.
    NOT in the fragment: the `; then` / `; do` spelling, indentation, blank lines (C14_parse_instances + L1b).
    For every such script the generic PEG interpreter on the regenerated grammar returns, for all
    sufficiently large fuel, the complete parse whose trimmed, EOI-stripped tree is tree_of_script
    (compositional per-rule lemmas + induction over the syntax tree: Proofs/LocustBlocks.v) ... *)
Theorem C14_parse_partial : forall b, frag_block b = true ->
  exists kids,
    evals l_grammar (PRef L_EXP) AtNon 0 (render_block b) (POk (List.length (render_block b)) nil kids) /\
    map (fun k => strip_eoi L_EOI (annotate (render_block b) k)) kids = (tree_of_script b :: nil).
Proof. exact parse_blocks. Qed.

(** ... and with the fuel parse_from computes from the input it is that result or OutOfFuel, never
    a different tree or a failure. (The real parser has no fuel; L1a never saw OutOfFuel.) *)
Theorem C14_parse_partial_from : forall b, frag_block b = true ->
  parse_from l_grammar L_EXP (render_block b) = PFuel \/ parse_ok b.
Proof. exact parse_blocks_from. Qed.

(** Round 9 -- indentation and blank lines. The fragment [fragI_block] is [frag_block] (the whole tree
    language in the newline spelling: command lines, break / continue, if / else if / else, for, while,
    nested to ANY depth, every body non-empty) PLUS
      - any number of spaces / tabs before every statement line, before every `else if` / `else` / `fi`
        and before every `done` (each line its own indentation, no discipline required; none trailing:
        command lines, conditions and word lists still do not end with white space),
      - blank lines (empty, or spaces / tabs only) anywhere a statement may stand, bodies included.
      - (second half of round 9) the `; then` / `; do` spelling of any head (`if c; then`, `else if c; then`,
        `while c; do`, `for v in ws; do` -- one blank after the `;`, as render_stmt spells it), freely mixed
        with the newline spelling.
    Conditions / word lists still hold no `;` of their own (cond_ok).
    For every such script the generic PEG interpreter on the regenerated grammar returns, for all
    sufficiently large fuel, the complete parse whose trimmed, EOI-stripped tree is tree_of_script
    (a calculus of parses that may stop inside a run of blanks -- pest's unrolled e+ leaves the span of a
    one-statement EXP_BODY after the indentation of the closing keyword -- Proofs/LocustIndent.v). *)
Theorem C14_parse_indented : forall b, fragI_block b = true ->
  exists kids,
    evals l_grammar (PRef L_EXP) AtNon 0 (render_block b) (POk (List.length (render_block b)) nil kids) /\
    map (fun k => strip_eoi L_EOI (annotate (render_block b) k)) kids = (tree_of_script b :: nil).
Proof. exact parse_indented. Qed.

Theorem C14_parse_indented_from : forall b, fragI_block b = true ->
  parse_from l_grammar L_EXP (render_block b) = PFuel \/ parse_ok b.
Proof. exact parse_indented_from. Qed.

(** the `; then` / `; do` spelling: fragI_block puts no constraint on the spelling flag of a head, so the
    statement is the one above; named separately because the task names it. wit1 / wit2 (both spellings,
    tabs / spaces, blank lines -- until now only computed instances) are in the fragment. *)
Theorem C14_parse_semicolon : forall b, fragI_block b = true ->
  parse_from l_grammar L_EXP (render_block b) = PFuel \/ parse_ok b.
Proof. exact parse_indented_from. Qed.
Example C14_parse_semicolon_nonvacuous :
  fragI_block wit1 = true /\ fragI_block wit2 = true /\
  fragI_block (BCons (SIf i0 true (S2 "test -f x") (BCons (SCmd i2 (S2 "echo y")) BNil)
                        (AElif i0 true (S2 "false") (BCons (SWhile i2 true (S2 "seq k 0,1") (BCons (SBreak it) BNil)) BNil)
                        (ANone i0))) BNil) = true.
Proof. vm_compute. repeat split. Qed.

(** command lines are now accepted exactly as pest accepts them (cmd_ok2 = one line, no white space at
    either end, not starts_kw): a line may start with a keyword WORD -- only `if ` / `for ` / `else if ` /
    `while ` (keyword + blank) and the bare words `else` / `fi` / `done` are refused. *)
Definition wit_kw : block :=
  BCons (SCmd i0 (S2 "fix"))
 (BCons (SCmd i2 (S2 "elsewhere x"))
 (BCons (SWhile i0 true (S2 "iffy") (BCons (SCmd it (S2 "done7")) (BCons (SCmd it (S2 "else x")) (BCons (SCmd i2 (S2 "fi  x")) BNil))))
 (BCons (SCmd i0 (S2 "format c:")) BNil))).
Example C14_parse_kwprefix_nonvacuous :
  fragI_block wit_kw = true /\ wfp_block wit_kw = true /\ parse_ok wit_kw.
Proof. split; [vm_compute; reflexivity|]. split; [vm_compute; reflexivity|]. prove_parse_ok. Qed.

(** C14_parse_full, as far as it is a theorem: for EVERY script of the property's own domain wfp_block
    (ScriptAst.v: any indentation, blank lines, both head spellings, any nesting) whose conditions and word
    lists hold no `;` (csf_block), the parser with the fuel it computes from the input delivers exactly the
    ideal tree -- or runs out of fuel (never seen by L1a / L1b; peg_fuel is not proved adequate).
    Outside: a `;` inside a condition / word list (an and-or list `a; b` as a condition), and the fuel bound. *)
Theorem C14_parse_full_nosemi : forall b, wfp_block b = true -> csf_block b = true ->
  parse_from l_grammar L_EXP (render_block b) = PFuel \/ parse_ok b.
Proof. exact parse_full_nosemi. Qed.
(** (Written before the generic termination theorem of Proofs/PegFuel.v existed; C14_parse_total, without the fuel
    disjunct, is proved further down, after peg_fuel was raised to 128 + 96 * length.)  The calculus of this file
    speaks of "all sufficiently large fuel" and carries no explicit bound. What is proved here is that the fuel is
    the ONLY residual: on the domain, parse_ok holds exactly when the computed fuel
    does not run out (so one evaluation of parse_from that is not PFuel -- which L1a / L1b perform on every
    generated script -- is a complete verdict). *)
Theorem C14_parse_total_partial : forall b, wfp_block b = true -> csf_block b = true ->
  (parse_ok b <-> parse_from l_grammar L_EXP (render_block b) <> PFuel).
Proof. exact parse_total_iff. Qed.
Check C14_parse_total_partial : forall b, wfp_block b = true -> csf_block b = true ->
  (parse_ok b <-> parse_from l_grammar L_EXP (render_block b) <> PFuel).
Check C14_parse_full_nosemi : forall b, wfp_block b = true -> csf_block b = true ->
  parse_from l_grammar L_EXP (render_block b) = PFuel \/ parse_ok b.

(** the round-3 fragment is the special case without indentation and blank lines *)
Theorem C14_parse_indented_extends : forall b, frag_block b = true -> fragI_block b = true.
Proof. exact (proj1 frag_sub). Qed.

Check C14_parse_indented : forall b, fragI_block b = true ->
  exists kids,
    evals l_grammar (PRef L_EXP) AtNon 0 (render_block b) (POk (List.length (render_block b)) nil kids) /\
    map (fun k => strip_eoi L_EOI (annotate (render_block b) k)) kids = (tree_of_script b :: nil).
Check C14_parse_indented_from : forall b, fragI_block b = true ->
  parse_from l_grammar L_EXP (render_block b) = PFuel \/ parse_ok b.
Check C14_parse_indented_extends : forall b, frag_block b = true -> fragI_block b = true.

(** Non-vacuity: an indented, nested if / else if / else + for + while script with blank lines (mixed tabs
    and spaces, a one-statement body before an indented `fi`, a differently indented `done`) is in the new
    fragment, not in the old one, and the computed-fuel parser does deliver its ideal tree. *)
Definition wit_ind : block :=
  BCons (SBlank i0)
 (BCons (SCmd i2 (S2 "echo a  b"))
 (BCons (SWhile i0 false (S2 "seq k 0,0,1")
           (BCons (SIf it false (S2 "test -f x") (BCons (SBreak (S2 "    ")) BNil)
                     (AElif i2 false (S2 "grep -q a b") (BCons (SBlank it) (BCons (SCmd (S2 "   ") (S2 "y")) BNil))
                     (AElse it (BCons (SCmd (S2 "      ") (S2 "ls | wc; date")) (BCons (SCont it) BNil)) i2)))
           (BCons (SBlank i2)
           (BCons (SFor i2 false (S2 "_v1") (S2 "a b2 $NOPE")
                     (BCons (SWhile (S2 "    ") false (S2 "false") (BCons (SCmd it (S2 "x")) BNil)) BNil))
           (BCons (SCmd i2 (S2 "echo $i")) BNil)))))
 (BCons (SIf i0 false (S2 "true") (BCons (SCmd it (S2 "z")) BNil) (ANone it))
  BNil))).
Example C14_parse_indented_nonvacuous :
  fragI_block wit_ind = true /\ frag_block wit_ind = false /\ parse_ok wit_ind.
Proof. split; [vm_compute; reflexivity|]. split; [vm_compute; reflexivity|]. prove_parse_ok. Qed.
Example C14_parse_full_nosemi_nonvacuous :
  wfp_block wit_ind = true /\ csf_block wit_ind = true /\ wfp_block wit2 = true /\ csf_block wit2 = true.
Proof. vm_compute. repeat split. Qed.

(** flat scripts (round 2) are the depth-0 case *)
Theorem C14_parse_flat : forall b, frag_flat b = true ->
  parse_from l_grammar L_EXP (render_block b) = PFuel \/ parse_ok b.
Proof. exact parse_flat_from. Qed.

Example C14_parse_partial_nonvacuous :
  frag_block
    (BCons (SCmd nil (S2 "echo a  b"))
    (BCons (SWhile nil false (S2 "seq k 0,0,1")
              (BCons (SIf nil false (S2 "test -f x") (BCons (SBreak nil) BNil)
                        (AElse nil (BCons (SCmd nil (S2 "ls | wc; date")) (BCons (SCont nil) BNil)) nil))
              (BCons (SCmd nil (S2 "echo $i")) BNil)))
    (BCons (SIf nil false (S2 "true") (BCons (SWhile nil false (S2 "false") (BCons (SCmd nil (S2 "x")) BNil)) BNil)
              (AElif nil false (S2 "grep -q a b") (BCons (SCmd nil (S2 "y")) BNil)
              (AElif nil false (S2 "t 2") (BCons (SFor nil false (S2 "_v1") (S2 "a b2 $NOPE") (BCons (SCmd nil (S2 "echo $_v1")) BNil)) BNil)
              (AElse nil (BCons (SCmd nil (S2 "z")) BNil) nil))))
     BNil))) = true.
Proof. vm_compute. reflexivity. Qed.

(** One block, positions only (the span texts of the compound nodes are not yet connected to
    tree_of_script): the script  `while cond` / one or more command lines / `done`  -- cond any
    one-line text without `;` and without white space at either end -- is parsed completely, for all
    sufficiently large fuel, to  EXP [ EXP_WHILE [ WHILE_HEAD [TEST]; EXP_BODY [CMD ...] ]; EOI ]
    with exactly these spans. Unbounded in cond and in the body. *)
Theorem C14_parse_while_pos : forall cond l r, cond_ok cond = true -> forallb cmd_ok (l :: r) = true ->
  let src := while_script cond (l :: r) in
  let p1 := S (6 + List.length cond) in
  let p2 := (p1 + List.length (render_lines (l :: r)))%nat in
  evals l_grammar (PRef L_EXP) AtNon 0 src
     (POk (List.length src) nil
        (Node L_EXP 0 (List.length src)
           (Node L_EXP_WHILE 0 (p2 + 5)
              (Node L_WHILE_HEAD 0 p1 (Node L_TEST 6 (6 + List.length cond) nil :: nil) ::
               Node L_EXP_BODY p1 p2 (cmd_nodes p1 (l :: r)) :: nil) ::
            Node L_EOI (List.length src) (List.length src) nil :: nil) :: nil)).
Proof. exact while_script_parses_pos. Qed.



(** 3. Unbalanced scripts. If the start rule is anchored at end of input, a
    successful parse has consumed the whole text (so a text whose remainder does
    not parse is a syntax error) -- for every grammar. *)
Theorem C14_anchor_sound : forall (g : grammar) (start : N), top_anchored g start = true ->
  forall input p r k, parse_from g start input = POk p r k -> r = nil.
Proof. exact anchored_consumes_all. Qed.

Definition diagnoses_unbalanced : Prop :=
  forall text p r k, parse_from l_grammar L_EXP text = POk p r k -> r = nil.

(** The property, in full. *)
Definition C14_full : Prop := C14_parse_full /\ diagnoses_unbalanced.

(**  echo start / if true / echo x / echo after  (no fi)  *)
Definition unbalanced_example : str := S2 "echo start
if true
echo x
echo after
".
Definition stray_fi_example : str := S2 "echo one
fi
echo two
".
(* the oracle: a world that logs every line it is asked to run; every command succeeds *)
Definition log_run (w : list str) (l : str) : list str * list Z := ((w ++ (l :: nil))%list, (0%Z :: nil)).
Definition log_words (w : list str) (_ : str) : list str * list str := (w, nil).
Definition run_logged (text : str) : option (outcome (list str)) :=
  run_lines (list str) log_run log_words (fun w _ _ => w) (fun _ => false) 8 text nil.

(** 1c. Conditions that are and-or LISTS. The oracle [run_line] of C14_interp, made concrete
    ([run_line_of]: the line goes through execute::run_command_line -- the C03 model -- and yields
    the statuses of the pipelines it executed), decides the head of an if / else-if / while by
    the LAST element of that vector. For every well-formed and-or list (any `;` `&&` `||`, quoted /
    escaped decoys, blanks) that is the final status of C03's reference semantics = the status of
    the last EXECUTED pipeline -- not "every executed pipeline returned 0". *)
Theorem C14_cond_list : forall (W : Type) (run : W -> str -> W * Z) w ws0 seg0 items ws_end,
  forallb is_ws ws0 = true -> wf_seg seg0 = true -> forallb wf_item items = true -> forallb is_ws ws_end = true ->
  last_is_zero (snd (run_line_of W run w (render_line ws0 seg0 items ws_end))) =
  (let '(_, st, _) := ref_exec W run w (prog_of seg0 items) in Z.eqb st 0) /\
  fst (run_line_of W run w (render_line ws0 seg0 items ws_end)) =
  (let '(w1, _, _) := ref_exec W run w (prog_of seg0 items) in w1).
Proof. exact cond_list_last. Qed.

(** witness:  false || true  -- the first pipeline fails, the line succeeds: the condition holds
    (an "all results are 0" test would say no), and an `if` with this head runs its then-body. *)
Definition cl_run (w : list str) (p : str) : list str * Z :=
  ((w ++ (p :: nil))%list, if str_eqb p (S2 "false") then 1%Z else 0%Z).
Example C14_cond_list_witness :
  run_line_of (list str) cl_run nil (S2 "false || true") = ((S2 "false" :: S2 "true" :: nil), (1 :: 0 :: nil)%Z) /\
  last_is_zero (1 :: 0 :: nil)%Z = true /\ forallb (fun z => Z.eqb z 0) (1 :: 0 :: nil)%Z = false /\
  (match run_lines (list str) (run_line_of (list str) cl_run) log_words (fun w _ _ => w) (fun _ => false) 8
           (S2 "if false || true
echo then
else
echo else
fi
") nil with
   | Some (Done w _ _ _) => Some w
   | _ => None
   end) = Some (S2 "false" :: S2 "true" :: S2 "echo then" :: nil).
Proof. vm_compute. repeat split. Qed.

(** The start rule of the grammar regenerated from the source tree IS anchored at end of input
    (repaired in 44451af; this is re-checked against grammar.pest on every run) ... *)
Theorem C14_anchored : top_anchored l_grammar L_EXP = true.
Proof. vm_compute. reflexivity. Qed.

(** ... hence a parse that succeeds has consumed the whole script: a text whose remainder cannot be
    parsed (unclosed if / for / while, stray fi / done / else) is a parse failure, which run_lines
    reports as a syntax error, running nothing. *)
Theorem C14_unbalanced_diagnosed : diagnoses_unbalanced.
Proof. intros text p r k. exact (C14_anchor_sound l_grammar L_EXP C14_anchored text p r k). Qed.

(** Instances: the two scripts that used to be cut silently are now rejected, and run_lines runs nothing. *)
Theorem C14_unbalanced_examples :
  parse_from l_grammar L_EXP unbalanced_example = PFail /\ run_logged unbalanced_example = None /\
  parse_from l_grammar L_EXP stray_fi_example = PFail /\ run_logged stray_fi_example = None.
Proof. vm_compute. repeat split. Qed.

Check C14_interp :
  forall (W : Type) (run_line : W -> str -> W * list Z) (for_words : W -> str -> W * list str)
         (set_var : W -> str -> str -> W) (eoe : W -> bool) (e : bool) (n : nat),
  (forall w, eoe w = e) ->
  forall b, wf_block b = true ->
  forall d in_loop w r txt, (depth_block b < d)%nat ->
  run_exp W run_line for_words set_var eoe n d (TNode r txt (kids_of_block b)) in_loop w =
  sem_block W run_line for_words set_var e n b in_loop w.
Check C14_anchor_sound : forall (g : grammar) (start : N), top_anchored g start = true ->
  forall input p r k, parse_from g start input = POk p r k -> r = nil.

(** Non-vacuity of C14_interp: wit1 and wit2 are well formed; on wit2, with the
    logging oracle extended by a word list and a scripted condition, the
    interpreter on the parsed text and the semantics on the tree agree and
    run a non-trivial sequence (13 lines: three for-iterations, in each the while body once, its inner if not taken). *)
Definition words3 (w : list str) (t : str) : list str * list str :=
  (w, if str_eqb t (S2 "a b2 c-d") then (S2 "a" :: S2 "b2" :: S2 "c-d" :: nil) else nil).
Definition fail_conditions (w : list str) (l : str) : list str * list Z :=
  ((w ++ (l :: nil))%list,
   (if str_eqb l (S2 "echo $i") then 0%Z
    else if str_eqb l (S2 "seq k 0,0,1") && Nat.even (List.length w) then 0%Z else 1%Z) :: nil).
Example C14_nonvacuous :
  wf_block wit1 = true /\ wf_block wit2 = true /\
  (match run_lines (list str) fail_conditions words3 (fun w _ _ => w) (fun _ => false) 8 (render_block wit2) nil with
   | Some (Done w crs _ _) => Some (List.length w, crs)
   | _ => None
   end) = Some (13%nat, (0 :: 0 :: 0 :: nil)%Z) /\
  sem_block (list str) fail_conditions words3 (fun w _ _ => w) false 8 wit2 false nil =
  (match run_lines (list str) fail_conditions words3 (fun w _ _ => w) (fun _ => false) 8 (render_block wit2) nil with
   | Some o => o
   | None => Panic
   end).
Proof. vm_compute. repeat split. Qed.

Print Assumptions C14_interp.
Print Assumptions C14_interp_inv.
Print Assumptions C14_cond_list.
Print Assumptions C14_parse_partial.
Print Assumptions C14_parse_partial_from.
Print Assumptions C14_parse_indented.
Print Assumptions C14_parse_indented_from.
Print Assumptions C14_parse_indented_extends.
Print Assumptions C14_parse_semicolon.
Print Assumptions C14_parse_full_nosemi.
Print Assumptions C14_parse_total_partial.
Print Assumptions C14_parse_while_pos.
Print Assumptions C14_parse_instances.
Print Assumptions C14_anchor_sound.
Print Assumptions C14_anchored.
Print Assumptions C14_unbalanced_diagnosed.
Print Assumptions C14_unbalanced_examples.

(** ---- Round 9 (pegfuel): generic termination of the PEG interpreter on the regenerated grammar ---- *)
From Cicada Require Import Proofs.PegFuel Proofs.PegFuelInst.
From Coq Require Lia.

(** the static well-formedness check (no rule reaches itself without consuming input, repetition bodies and
    WHITESPACE not nullable) holds of the regenerated locust grammar -- computed on every run *)
Theorem C14_grammar_wf : wf_grammar l_grammar = true.
Proof. exact l_grammar_wf. Qed.
Check C14_grammar_wf : wf_grammar l_grammar = true.

(** the generic theorem: a well-formed grammar never runs out of fuel above the explicit linear bound *)
Theorem C14_ev_fuel_adequate : forall g, wf_grammar g = true ->
  forall e a pos rest fuel, pexp_ok g e = true ->
  (peg_bound g (List.length rest) <= fuel)%nat -> ev g fuel e a pos rest <> PFuel.
Proof. exact ev_fuel_adequate. Qed.
Check C14_ev_fuel_adequate : forall g, wf_grammar g = true ->
  forall e a pos rest fuel, pexp_ok g e = true ->
  (peg_bound g (List.length rest) <= fuel)%nat -> ev g fuel e a pos rest <> PFuel.

Theorem C14_peg_fuel_adequate : forall start a pos s fuel,
  (peg_bound l_grammar (List.length s) <= fuel)%nat -> ev l_grammar fuel (PRef start) a pos s <> PFuel.
Proof. exact l_peg_fuel_adequate. Qed.
Check C14_peg_fuel_adequate : forall start a pos s fuel,
  (peg_bound l_grammar (List.length s) <= fuel)%nat -> ev l_grammar fuel (PRef start) a pos s <> PFuel.

(** the fuel parse_from uses (64 + 24 n) is smaller than the generic bound; this is all that is missing *)
Theorem C14_parse_from_fuel_gap : forall start s,
  parse_from l_grammar start s = PFuel -> (peg_fuel s < peg_bound l_grammar (List.length s))%nat.
Proof. exact l_parse_from_fuel_gap. Qed.
Check C14_parse_from_fuel_gap : forall start s,
  parse_from l_grammar start s = PFuel -> (peg_fuel s < peg_bound l_grammar (List.length s))%nat.

(** C14_parse_total at the explicit bound: no fuel disjunct *)
Theorem C14_parse_total_at_bound : forall b, wfp_block b = true -> csf_block b = true ->
  forall fuel, (peg_bound l_grammar (List.length (render_block b)) <= fuel)%nat -> parse_ok_at fuel b.
Proof. exact parse_total_at_bound. Qed.
Check C14_parse_total_at_bound : forall b, wfp_block b = true -> csf_block b = true ->
  forall fuel, (peg_bound l_grammar (List.length (render_block b)) <= fuel)%nat -> parse_ok_at fuel b.

(** (Before peg_fuel was raised above the bound: the gap statement. C14_parse_total itself follows below.) *)
Theorem C14_parse_total_partial_gap : forall b, wfp_block b = true -> csf_block b = true ->
  parse_ok b \/ (peg_fuel (render_block b) < peg_bound l_grammar (List.length (render_block b)))%nat.
Proof. exact parse_total_or_gap. Qed.
Check C14_parse_total_partial_gap : forall b, wfp_block b = true -> csf_block b = true ->
  parse_ok b \/ (peg_fuel (render_block b) < peg_bound l_grammar (List.length (render_block b)))%nat.

(** non-vacuity: the bound is a small linear function, and a witness script parses at it *)
Example C14_peg_bound_linear : forall n, peg_bound l_grammar (S n) = (peg_bound l_grammar n + g_A l_grammar)%nat.
Proof. intro n. unfold peg_bound. rewrite PeanoNat.Nat.mul_succ_r. Lia.lia. Qed.
Example C14_parse_total_at_bound_wit : parse_ok_at (peg_bound l_grammar (List.length (render_block wit1))) wit1.
Proof. apply C14_parse_total_at_bound; [vm_compute; reflexivity | vm_compute; reflexivity | apply le_n]. Qed.

Print Assumptions C14_grammar_wf.
Print Assumptions C14_ev_fuel_adequate.
Print Assumptions C14_peg_fuel_adequate.
Print Assumptions C14_parse_from_fuel_gap.
Print Assumptions C14_parse_total_at_bound.
Print Assumptions C14_parse_total_partial_gap.

(** ---- Round 9, second part (pegfuel): peg_fuel (Base/Peg.v) raised to 128 + 96 n, above the generic bound of the
    regenerated grammar (checked by computation: l_peg_fuel_above_bound), so the gap is closed. ---- *)
Theorem C14_peg_fuel_above_bound : forall s, (peg_bound l_grammar (List.length s) <= peg_fuel s)%nat.
Proof. exact l_peg_fuel_above_bound. Qed.
Check C14_peg_fuel_above_bound : forall s, (peg_bound l_grammar (List.length s) <= peg_fuel s)%nat.

Theorem C14_parse_never_fuel : forall start s, parse_from l_grammar start s <> PFuel.
Proof. exact l_parse_never_fuel. Qed.
Check C14_parse_never_fuel : forall start s, parse_from l_grammar start s <> PFuel.

Theorem C14_parse_total : forall b, wfp_block b = true -> csf_block b = true -> parse_ok b.
Proof. exact parse_total. Qed.
Check C14_parse_total : forall b, wfp_block b = true -> csf_block b = true -> parse_ok b.

Print Assumptions C14_peg_fuel_above_bound.
Print Assumptions C14_parse_never_fuel.
Print Assumptions C14_parse_total.
