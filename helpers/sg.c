/* sg: helper for the signal-disposition part of C02.
   usage: sg TAG [w<N>]
   Appends to $VERIF_TRACE:  "sg tag=TAG sigign=<hex of SigIgn from /proc/self/status>"  as its first action, then (w<N>)
   writes N bytes to stdout in 4 KiB chunks and appends  "sg tag=TAG end=ok"  or, when a write fails,
   "sg tag=TAG end=err errno=<n> wrote=<k>"  (exit status 3).  A process killed by SIGPIPE leaves no end record. */
#define _GNU_SOURCE
#include <errno.h>
#include <fcntl.h>
#include <stdio.h>
#include <stdlib.h>
#include <string.h>
#include <unistd.h>

static void rec(const char *line) {
  const char *t = getenv("VERIF_TRACE");
  if (!t) return;
  int fd = open(t, O_WRONLY | O_APPEND | O_CREAT | O_CLOEXEC, 0644);
  if (fd < 0) return;
  ssize_t r = write(fd, line, strlen(line)); (void)r;
  close(fd);
}

int main(int argc, char **argv) {
  const char *tag = argc > 1 ? argv[1] : "?";
  char line[512], buf[4096], ign[64] = "?";
  FILE *f = fopen("/proc/self/status", "r");
  if (f) {
    while (fgets(buf, sizeof buf, f))
      if (!strncmp(buf, "SigIgn:", 7)) { sscanf(buf + 7, " %63s", ign); break; }
    fclose(f);
  }
  snprintf(line, sizeof line, "sg\ttag=%s\tsigign=%s\n", tag, ign);
  rec(line);
  if (argc > 2 && argv[2][0] == 'w') {
    long n = atol(argv[2] + 1), left = n;
    memset(buf, 'z', sizeof buf);
    while (left > 0) {
      ssize_t k = write(1, buf, left > (long)sizeof buf ? sizeof buf : (size_t)left);
      if (k < 0) {
        snprintf(line, sizeof line, "sg\ttag=%s\tend=err\terrno=%d\twrote=%ld\n", tag, errno, n - left);
        rec(line);
        return 3;
      }
      left -= k;
    }
    snprintf(line, sizeof line, "sg\ttag=%s\tend=ok\n", tag);
    rec(line);
  }
  return 0;
}
