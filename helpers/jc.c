/* jc: job-control helper for C07 (pty sessions).
   usage: jc <exit-code> [tag]
   Appends "pid=<pid>\tpgid=<pgid>\targv=jc,<code>,<tag>\ttpgid=<tcgetpgrp(2)>\n" to $VERIF_TRACE
   (same leading fields as hp; tpgid = the terminal's foreground group as seen from inside the
   job when it starts, -1 when fd 2 is no terminal), then sleeps until told what to do:
     SIGUSR1 -> exit with <exit-code>        SIGUSR2 -> stop itself (SIGSTOP)
   every other signal keeps its default action (SIGINT/SIGTERM end it, SIGTSTP stops it).
   Never reads or writes the terminal or its pipes. Gives up after 120 s. */
#define _GNU_SOURCE
#include <fcntl.h>
#include <signal.h>
#include <stdio.h>
#include <stdlib.h>
#include <string.h>
#include <unistd.h>
#include <time.h>

static volatile sig_atomic_t want_exit = 0, want_stop = 0;
static void on1(int s) { (void)s; want_exit = 1; }
static void on2(int s) { (void)s; want_stop = 1; }

int main(int argc, char **argv) {
  int code = argc > 1 ? atoi(argv[1]) : 0;
  int tp = (int)tcgetpgrp(2);
  struct sigaction a; memset(&a, 0, sizeof a);
  a.sa_handler = on1; sigaction(SIGUSR1, &a, 0);
  a.sa_handler = on2; sigaction(SIGUSR2, &a, 0);
  char buf[512];
  int n = snprintf(buf, sizeof buf, "pid=%d\tpgid=%d\targv=jc,%s,%s\ttpgid=%d\n", (int)getpid(), (int)getpgrp(),
                   argc > 1 ? argv[1] : "", argc > 2 ? argv[2] : "", tp);
  const char *t = getenv("VERIF_TRACE");
  if (t) { int fd = open(t, O_WRONLY | O_APPEND | O_CREAT | O_CLOEXEC, 0644);
           if (fd >= 0) { ssize_t r = write(fd, buf, n); (void)r; close(fd); } }
  time_t end = time(0) + 120;
  while (time(0) < end) {
    if (want_exit) _exit(code);
    if (want_stop) { want_stop = 0; raise(SIGSTOP); continue; }
    struct timespec ts = { 0, 20 * 1000000L };
    nanosleep(&ts, 0);
  }
  return 99;
}
