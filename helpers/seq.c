/* seq: scripted status sequence for loop / if conditions.
   usage: seq <counter-file> <s0,s1,...>
   Reads the call count k from <counter-file> (0 if missing), stores k+1, and
   exits with the k-th status of the list (the last one when k runs past it).
   Appends one record "pid=..\targv=seq,<file>,<list>" to $VERIF_TRACE (same
   field syntax as hp) so that condition evaluations appear in the ordered trace. */
#include <fcntl.h>
#include <stdio.h>
#include <stdlib.h>
#include <string.h>
#include <unistd.h>

int main(int argc, char **argv) {
  if (argc < 3) return 2;
  int k = 0;
  FILE *f = fopen(argv[1], "r");
  if (f) { if (fscanf(f, "%d", &k) != 1) k = 0; fclose(f); }
  f = fopen(argv[1], "w");
  if (f) { fprintf(f, "%d\n", k + 1); fclose(f); }
  const char *t = getenv("VERIF_TRACE");
  if (t) {
    char line[4096];
    int n = snprintf(line, sizeof line, "pid=%d\targv=seq,%s,%s\n", (int)getpid(), argv[1], argv[2]);
    /* the list contains commas: they are part of the last argv field by construction */
    int fd = open(t, O_WRONLY | O_APPEND | O_CREAT | O_CLOEXEC, 0644);
    if (fd >= 0) { ssize_t r = write(fd, line, (size_t)n); (void)r; close(fd); }
  }
  int st = 0, i = 0;
  char *cp = strdup(argv[2]), *sv = 0;
  for (char *p = strtok_r(cp, ",", &sv); p; p = strtok_r(0, ",", &sv), i++) {
    st = atoi(p);
    if (i == k) break;
  }
  return st;
}
