/* hp: helper program for the process-level correspondence layer.
   Records what it received (argv, cwd, selected environment, open fds, stdin)
   as one line appended to $VERIF_TRACE, then behaves as argv[1] instructs.
   argv[1] = "@" followed by comma-separated actions, performed in order:
     r      read stdin to EOF, record byte count and FNV-1a hash
     w<N>   write N bytes (a fixed pattern) to stdout
     e<N>   write N bytes to stderr
     s<N>   sleep N milliseconds
     x<N>   exit with status N           (default: exit 0)
     k<N>   kill self with signal N
     t<N>   stop self (SIGSTOP) after N ms  [job control tests]
     o      echo the remaining arguments to stdout, one per line, before exiting
   The record is written before the actions run (after 'r' if present first). */
#define _GNU_SOURCE
#include <dirent.h>
#include <fcntl.h>
#include <signal.h>
#include <stdio.h>
#include <stdlib.h>
#include <string.h>
#include <unistd.h>
#include <time.h>

static char buf[1 << 20];
static size_t pos = 0;
static void putc_(char c) { if (pos < sizeof buf - 1) buf[pos++] = c; }
static void puts_(const char *s) { while (*s) putc_(*s++); }
static void enc(const char *s) {
  static const char *hex = "0123456789ABCDEF";
  for (; *s; s++) {
    unsigned char b = (unsigned char)*s;
    if (b >= 0x21 && b <= 0x7e && b != '%' && b != '"' && b != ',' && b != ':' ) putc_(b);
    else { putc_('%'); putc_(hex[b >> 4]); putc_(hex[b & 15]); }
  }
}
static void msleep(long ms) { struct timespec t = { ms / 1000, (ms % 1000) * 1000000L }; nanosleep(&t, 0); }

int main(int argc, char **argv) {
  char tmp[4096];
  long nread = -1; unsigned long long h = 1469598103934665603ULL;
  const char *act = (argc > 1 && argv[1][0] == '@') ? argv[1] + 1 : "";
  /* fds first: nothing opened by us yet */
  char fdsrec[8192]; size_t fp = 0; fdsrec[0] = 0;
  for (int fd = 0; fd < 256; fd++) {
    char p[64]; snprintf(p, sizeof p, "/proc/self/fd/%d", fd);
    ssize_t n = readlink(p, tmp, sizeof tmp - 1);
    if (n < 0) continue;
    tmp[n] = 0;
    int fl = fcntl(fd, F_GETFD);
    fp += snprintf(fdsrec + fp, sizeof fdsrec - fp, "%s%d=", fp ? "," : "", fd);
    /* encode target */
    size_t save = pos; pos = 0; char keep[sizeof tmp * 3];
    size_t oldpos = save; (void)oldpos;
    { size_t s0 = pos; enc(tmp); size_t len = pos - s0; memcpy(keep, buf + s0, len); keep[len] = 0; pos = save; }
    fp += snprintf(fdsrec + fp, sizeof fdsrec - fp, "%s%s", keep, (fl & FD_CLOEXEC) ? "+x" : "");
  }
  if (act[0] == 'r') {
    nread = 0; ssize_t n;
    while ((n = read(0, tmp, sizeof tmp)) > 0) { nread += n; for (ssize_t i = 0; i < n; i++) { h ^= (unsigned char)tmp[i]; h *= 1099511628211ULL; } }
  }
  puts_("pid="); { char p[32]; snprintf(p, sizeof p, "%d", getpid()); puts_(p); }
  puts_("\tpgid="); { char p[32]; snprintf(p, sizeof p, "%d", getpgrp()); puts_(p); }
  puts_("\targv=");
  for (int i = 0; i < argc; i++) { if (i) putc_(','); enc(argv[i]); if (!argv[i][0]) puts_(""); }
  puts_("\tcwd="); if (getcwd(tmp, sizeof tmp)) enc(tmp);
  puts_("\tenv=");
  { const char *names = getenv("VERIF_ENVNAMES"); int first = 1;
    if (names) { char *cp = strdup(names), *sv = 0;
      for (char *n = strtok_r(cp, ",", &sv); n; n = strtok_r(0, ",", &sv)) {
        extern char **environ; int cnt = 0; size_t ln = strlen(n);
        for (char **e = environ; *e; e++) if (!strncmp(*e, n, ln) && (*e)[ln] == '=') {
          if (!first) putc_(','); first = 0; enc(n); putc_(':'); enc(*e + ln + 1); cnt++; }
        (void)cnt; } } }
  puts_("\tfds="); puts_(fdsrec);
  if (nread >= 0) { char p[64]; snprintf(p, sizeof p, "\tstdin=%ld:%llx", nread, h); puts_(p); }
  putc_('\n');
  { const char *t = getenv("VERIF_TRACE");
    if (t) { int fd = open(t, O_WRONLY | O_APPEND | O_CREAT | O_CLOEXEC, 0644); if (fd >= 0) { ssize_t r = write(fd, buf, pos); (void)r; close(fd); } } }
  int status = 0;
  char *a = strdup(act), *sv = 0;
  for (char *t = strtok_r(a, ",", &sv); t; t = strtok_r(0, ",", &sv)) {
    long n = atol(t + 1);
    switch (t[0]) {
      case 'r': break;
      case 'w': case 'e': { int fd = t[0] == 'w' ? 1 : 2; long left = n; memset(tmp, 'a' + (n % 23), sizeof tmp);
        while (left > 0) { ssize_t k = write(fd, tmp, left > (long)sizeof tmp ? sizeof tmp : (size_t)left); if (k <= 0) break; left -= k; } break; }
      case 's': msleep(n); break;
      case 'x': status = (int)n; break;
      case 'k': kill(getpid(), (int)n); msleep(50); break;
      case 't': msleep(n); kill(getpid(), SIGSTOP); break;
      case 'o': for (int i = 2; i < argc; i++) { fputs(argv[i], stdout); fputc('\n', stdout); } fflush(stdout); break;
    }
  }
  return status;
}
