/* csub: inner command for the command-substitution checks (C11).
   csub <file> [<counter-file>]  appends one byte to <counter-file> (if given),
   then copies <file> to stdout verbatim.  The command line contains no shell
   syntax, the output is arbitrary bytes, the counter tells how often it ran. */
#include <fcntl.h>
#include <stdio.h>
#include <unistd.h>

int main(int argc, char **argv) {
  char buf[4096];
  if (argc < 2) return 2;
  if (argc > 2) {
    int c = open(argv[2], O_WRONLY | O_APPEND | O_CREAT, 0644);
    if (c >= 0) { ssize_t r = write(c, "x", 1); (void)r; close(c); }
  }
  int fd = open(argv[1], O_RDONLY);
  if (fd < 0) return 3;
  ssize_t n;
  while ((n = read(fd, buf, sizeof buf)) > 0) { ssize_t r = write(1, buf, n); (void)r; }
  return 0;
}
