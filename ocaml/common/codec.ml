(* Shared by all drivers: percent-encoding wire format and N <-> int.
   The extracted datatypes differ per engine, so conversion functions are
   passed in by each driver (see drv.ml files). *)
let hex = "0123456789ABCDEF"

let enc_bytes (b : string) : string =
  let o = Buffer.create (String.length b + 8) in
  String.iter (fun ch ->
    let c = Char.code ch in
    if c >= 0x20 && c <= 0x7e && ch <> '%' && ch <> '"' then Buffer.add_char o ch
    else begin Buffer.add_char o '%'; Buffer.add_char o hex.[c lsr 4]; Buffer.add_char o hex.[c land 15] end) b;
  Buffer.contents o

let hv c = match c with
  | '0'..'9' -> Char.code c - 48 | 'A'..'F' -> Char.code c - 55 | 'a'..'f' -> Char.code c - 87
  | _ -> failwith "bad hex"

let dec_bytes (s : string) : string =
  let o = Buffer.create (String.length s) in
  let n = String.length s in
  let i = ref 0 in
  while !i < n do
    if s.[!i] = '%' then begin
      Buffer.add_char o (Char.chr (hv s.[!i+1] * 16 + hv s.[!i+2])); i := !i + 3 end
    else begin Buffer.add_char o s.[!i]; incr i end
  done;
  Buffer.contents o

(* UTF-8 <-> code points (ints) *)
let utf8_decode (b : string) : int list =
  let n = String.length b in
  let rec go i acc =
    if i >= n then List.rev acc else
    let c = Char.code b.[i] in
    if c < 0x80 then go (i+1) (c :: acc)
    else if c < 0xE0 then go (i+2) ((((c land 0x1F) lsl 6) lor (Char.code b.[i+1] land 0x3F)) :: acc)
    else if c < 0xF0 then
      go (i+3) ((((c land 0x0F) lsl 12) lor ((Char.code b.[i+1] land 0x3F) lsl 6)
                 lor (Char.code b.[i+2] land 0x3F)) :: acc)
    else
      go (i+4) ((((c land 0x07) lsl 18) lor ((Char.code b.[i+1] land 0x3F) lsl 12)
                 lor ((Char.code b.[i+2] land 0x3F) lsl 6) lor (Char.code b.[i+3] land 0x3F)) :: acc)
  in go 0 []

let utf8_encode (cps : int list) : string =
  let o = Buffer.create 16 in
  List.iter (fun c ->
    if c < 0x80 then Buffer.add_char o (Char.chr c)
    else if c < 0x800 then begin
      Buffer.add_char o (Char.chr (0xC0 lor (c lsr 6)));
      Buffer.add_char o (Char.chr (0x80 lor (c land 0x3F))) end
    else if c < 0x10000 then begin
      Buffer.add_char o (Char.chr (0xE0 lor (c lsr 12)));
      Buffer.add_char o (Char.chr (0x80 lor ((c lsr 6) land 0x3F)));
      Buffer.add_char o (Char.chr (0x80 lor (c land 0x3F))) end
    else begin
      Buffer.add_char o (Char.chr (0xF0 lor (c lsr 18)));
      Buffer.add_char o (Char.chr (0x80 lor ((c lsr 12) land 0x3F)));
      Buffer.add_char o (Char.chr (0x80 lor ((c lsr 6) land 0x3F)));
      Buffer.add_char o (Char.chr (0x80 lor (c land 0x3F))) end) cps;
  Buffer.contents o

let split_tab (l : string) : string list = String.split_on_char '\t' l

let iter_lines (f : string -> unit) (path : string) =
  let ic = open_in_bin path in
  (try while true do f (input_line ic) done with End_of_file -> ());
  close_in ic
