open C17_model
open Codec

let rec pos_of_int i = if i = 1 then XH else if i land 1 = 0 then XO (pos_of_int (i lsr 1)) else XI (pos_of_int (i lsr 1))
let n_of_int i = if i = 0 then N0 else Npos (pos_of_int i)
let rec int_of_pos = function XH -> 1 | XO p -> 2 * int_of_pos p | XI p -> 2 * int_of_pos p + 1
let int_of_n = function N0 -> 0 | Npos p -> int_of_pos p

let str_of_bytes b = List.map n_of_int (utf8_decode b)
let bytes_of_str (s : n list) = utf8_encode (List.map int_of_n s)
let str_of_field f = str_of_bytes (dec_bytes f)
let e (s : n list) = enc_bytes (bytes_of_str s)

let tag_of_sep = function "" -> TNone | "'" -> TSq | "\"" -> TDq | "`" -> TBq | "\\" -> TBs | s -> failwith ("tag " ^ s)
let sep_of_tag = function TNone -> "" | TSq -> "'" | TDq -> "\"" | TBq -> "`" | TBs -> "\\"

(* field stream reader *)
let take r = match !r with x :: tl -> r := tl; x | [] -> failwith "short case"
let take_int r = int_of_string (take r)
let take_tokens r =
  let n = take_int r in
  List.init n (fun _ -> let s = dec_bytes (take r) in let t = str_of_field (take r) in (tag_of_sep s, t))

let show_tokens toks =
  "[" ^ String.concat "," (List.map (fun (tg, t) -> "(\"" ^ enc_bytes (sep_of_tag tg) ^ "\",\"" ^ e t ^ "\")") toks) ^ "]"

let show_table t =
  let l = List.sort compare (List.map (fun (k, v) -> e k ^ "=" ^ e v) t) in
  String.concat ";" l

let () =
  iter_lines (fun l ->
    let r = ref (split_tab l) in
    match take r with
    | "exp" ->
        let nt = take_int r in
        let entries = List.init nt (fun _ ->
          let k = str_of_field (take r) in let v = str_of_field (take r) in let tk = take_tokens r in (k, v, tk)) in
        let table = List.map (fun (k, v, _) -> (k, v)) entries in
        let tokenize v = match List.find_opt (fun (_, v', _) -> v' = v) entries with Some (_, _, tk) -> tk | None -> failwith "tokenize" in
        let before = take_tokens r in
        let a = expand_alias tokenize table before in
        let b = expand_spec tokenize table before true in
        print_endline (show_tokens a ^ (if a = b then "" else " SPEC-DIFFERS " ^ show_tokens b))
    | ("bi" | "un") as k ->
        let nt = take_int r in
        let table = List.init nt (fun _ -> let k = str_of_field (take r) in let v = str_of_field (take r) in (k, v)) in
        let na = take_int r in
        let targs = List.init na (fun _ -> let s = dec_bytes (take r) in let t = str_of_field (take r) in (tag_of_sep s, t)) in
        let args = List.map snd targs in
        let nu = take_int r in
        let unq = List.init nu (fun _ -> let a = str_of_field (take r) in let b = str_of_field (take r) in (a, b)) in
        let unquote s = match List.assoc_opt s unq with Some x -> x | None -> s in
        let (t', out) = if k = "bi" then alias_builtin unquote table targs else unalias_builtin table args in
        let o, err = match out with
          | OutList lines -> String.concat "\n" (List.sort compare (List.map bytes_of_str lines)), ""
          | OutOne line -> bytes_of_str line, ""
          | ErrNotFound n -> "", "notfound:" ^ bytes_of_str n
          | ErrSyntax -> "", "syntax"
          | OutNone -> "", "" in
        print_endline ("out=" ^ enc_bytes o ^ "|err=" ^ enc_bytes err ^ "|table=" ^ show_table t')
    | _ -> print_endline "?bad-case") Sys.argv.(1)
