open C15_model
open Codec

let rec pos_of_int i = if i = 1 then XH else if i land 1 = 0 then XO (pos_of_int (i lsr 1)) else XI (pos_of_int (i lsr 1))
let n_of_int i = if i = 0 then N0 else Npos (pos_of_int i)
let rec int_of_pos = function XH -> 1 | XO p -> 2 * int_of_pos p | XI p -> 2 * int_of_pos p + 1
let int_of_n = function N0 -> 0 | Npos p -> int_of_pos p

let str_of_string b = List.map n_of_int (utf8_decode b)
let string_of_str (s : n list) = utf8_encode (List.map int_of_n s)
let str_of_field f = str_of_string (dec_bytes f)
let q (s : n list) = "\"" ^ enc_bytes (string_of_str s) ^ "\""

let rec take n l = if n = 0 then ([], l) else match l with x :: r -> let (a, b) = take (n - 1) r in (x :: a, b) | [] -> ([], [])
let rec pairs = function a :: b :: r -> (str_of_field a, str_of_field b) :: pairs r | _ -> []

let () =
  iter_lines (fun l ->
    match split_tab l with
    | "single" :: tok :: args ->
        (match expand_args_for_single_token (str_of_field tok) (List.map str_of_field args) with
         | Ok s -> print_endline (q s)
         | Panic -> print_endline "PANIC"
         | OutOfFuel -> print_endline "OUT-OF-FUEL")
    | ["isargs"; tok] -> print_endline (if is_args_in_token (str_of_field tok) then "true" else "false")
    | "intok" :: n :: rest ->
        let (args, toks) = take (int_of_string n) rest in
        (match expand_args_in_tokens (pairs toks) (List.map str_of_field args) with
         | Ok ts -> print_endline ("[" ^ String.concat "," (List.map (fun (a, b) -> "(" ^ q a ^ "," ^ q b ^ ")") ts) ^ "]")
         | Panic -> print_endline "PANIC"
         | OutOfFuel -> print_endline "OUT-OF-FUEL")
    | ["ftab"; text] ->
        let (fs, tn) = function_table (str_of_field text) in
        print_endline ("funcs=[" ^ String.concat "," (List.map (fun (a, b) -> "(" ^ q a ^ "," ^ q b ^ ")") fs) ^ "] text=" ^ q tn)
    | _ -> print_endline "?bad-case") Sys.argv.(1)
