open C15_model
open Codec

let rec pos_of_int i = if i = 1 then XH else if i land 1 = 0 then XO (pos_of_int (i lsr 1)) else XI (pos_of_int (i lsr 1))
let n_of_int i = if i = 0 then N0 else Npos (pos_of_int i)
let rec int_of_pos = function XH -> 1 | XO p -> 2 * int_of_pos p | XI p -> 2 * int_of_pos p + 1
let int_of_n = function N0 -> 0 | Npos p -> int_of_pos p
let z_of_int i = if i = 0 then Z0 else if i > 0 then Zpos (pos_of_int i) else Zneg (pos_of_int (-i))
let int_of_z = function Z0 -> 0 | Zpos p -> int_of_pos p | Zneg p -> - (int_of_pos p)
let rec nat_of_int i = if i <= 0 then O else S (nat_of_int (i - 1))

let str_of_string b = List.map n_of_int (utf8_decode b)
let string_of_str (s : n list) = utf8_encode (List.map int_of_n s)
let str_of_field f = str_of_string (dec_bytes f)
let q (s : n list) = "\"" ^ enc_bytes (string_of_str s) ^ "\""

let rec take n l = if n = 0 then ([], l) else match l with x :: r -> let (a, b) = take (n - 1) r in (x :: a, b) | [] -> ([], [])
let rec pairs = function a :: b :: r -> (str_of_field a, str_of_field b) :: pairs r | _ -> []

let () =
  iter_lines (fun l ->
    match split_tab l with
    | "single" :: tok :: args ->
        (match expand_args_for_single_token (str_of_field tok) (List.map str_of_field args) with
         | Ok s -> print_endline (q s)
         | Panic -> print_endline "PANIC"
         | OutOfFuel -> print_endline "OUT-OF-FUEL")
    | ["isargs"; tok] -> print_endline (if is_args_in_token (str_of_field tok) then "true" else "false")
    | "intok" :: n :: rest ->
        let (args, toks) = take (int_of_string n) rest in
        (match expand_args_in_tokens (pairs toks) (List.map str_of_field args) with
         | Ok ts -> print_endline ("[" ^ String.concat "," (List.map (fun (a, b) -> "(" ^ q a ^ "," ^ q b ^ ")") ts) ^ "]")
         | Panic -> print_endline "PANIC"
         | OutOfFuel -> print_endline "OUT-OF-FUEL")
    | ["ftab"; text] ->
        let (fs, tn) = function_table (str_of_field text) in
        print_endline ("funcs=[" ^ String.concat "," (List.map (fun (a, b) -> "(" ^ q a ^ "," ^ q b ^ ")") fs) ^ "] text=" ^ q tn)
    | "shrun" :: main :: files ->
        (* set -e / functions / source threaded through the shell state; files = path,text pairs *)
        let tbl = pairs files in
        let file_text p = try Some (List.assoc p tbl) with Not_found -> None in
        let ext (line : n list) =
          let ws = List.filter (fun x -> x <> "") (String.split_on_char ' ' (string_of_str line)) in
          (match ws with
           | _ :: ctl :: _ when String.length ctl > 2 && String.sub ctl 0 2 = "@x" ->
               z_of_int (try int_of_string (String.sub ctl 2 (String.length ctl - 2)) with _ -> 0)
           | _ -> z_of_int 0) in
        let w0 = { s_eoe = false; s_funcs = []; s_log = [] } in
        let (w, st) = run_script ext file_text (nat_of_int 12) (nat_of_int 40) w0 (str_of_field main) in
        let show l = match List.filter (fun x -> x <> "") (String.split_on_char ' ' (string_of_str l)) with
          | _ :: rest -> String.concat "," rest | [] -> "" in
        print_endline ("trace=[" ^ String.concat ";" (List.map show w.s_log) ^ "] status=" ^ string_of_int (int_of_z st))
    | _ -> print_endline "?bad-case") Sys.argv.(1)
