(* Driver around the extracted model of CommandLine::from_line (Model/FullPlan.v): world and
   token wire format as in ocaml/c10/drv.ml, plan printing as in ocaml/c01/drv.ml. *)
open C13_model
open Codec

let rec pos_of_int i = if i = 1 then XH else if i land 1 = 0 then XO (pos_of_int (i lsr 1)) else XI (pos_of_int (i lsr 1))
let n_of_int i = if i = 0 then N0 else Npos (pos_of_int i)
let rec int_of_pos = function XH -> 1 | XO p -> 2 * int_of_pos p | XI p -> 2 * int_of_pos p + 1
let int_of_n = function N0 -> 0 | Npos p -> int_of_pos p
let z_of_int i = if i = 0 then Z0 else if i > 0 then Zpos (pos_of_int i) else Zneg (pos_of_int (-i))
let int_of_z = function Z0 -> 0 | Zpos p -> int_of_pos p | Zneg p -> - (int_of_pos p)
let rec nat_of_int i = if i <= 0 then O else S (nat_of_int (i - 1))

let str_of_bytes (b : String.t) : n list = List.map n_of_int (utf8_decode b)
let bytes_of_str (s : n list) : String.t = utf8_encode (List.map int_of_n s)
let str_of_field f = str_of_bytes (dec_bytes f)
let q (s : n list) = "\"" ^ enc_bytes (bytes_of_str s) ^ "\""
let qlist l = "[" ^ String.concat "," (List.map q l) ^ "]"

let tag_of_char = function 'n' -> TNone | 's' -> TSq | 'd' -> TDq | 'b' -> TBq | 'e' -> TBs | _ -> failwith "tag"
let tag_text = function TNone -> "" | TSq -> "'" | TDq -> "\"" | TBq -> "`" | TBs -> "\\"

let split_on (c : Char.t) (s : String.t) : String.t list = if s = "" then [] else String.split_on_char c s

let toks_of_field f : (tag * n list) list =
  List.map (fun e -> (tag_of_char e.[0], str_of_bytes (String.sub e 1 (String.length e - 1))))
    (split_on '\x1f' (dec_bytes f))

let show_toks (t : (tag * n list) list) =
  "[" ^ String.concat "," (List.map (fun (tg, s) -> "(\"" ^ enc_bytes (tag_text tg) ^ "\"," ^ q s ^ ")") t) ^ "]"

(* world field: entries separated by 0x1e; entry = kind char, key, 0x1d, value *)
let world_of_field f : world =
  let es = split_on '\x1e' (dec_bytes f) in
  let parse e =
    let k = e.[0] in
    let body = String.sub e 1 (String.length e - 1) in
    match String.index_opt body '\x1d' with
    | Some i -> (k, String.sub body 0 i, String.sub body (i + 1) (String.length body - i - 1))
    | None -> (k, body, "") in
  let es = List.map parse es in
  let table kind = List.filter_map (fun (k, a, b) -> if k = kind then Some (str_of_bytes a, b) else None) es in
  let lookup tbl key = List.assoc_opt key tbl in
  let envs = table 'E' and shs = table 'S' and als = table 'A' and runs = table 'R' and runf = table 'r'
  and globs = table 'G' and globf = table 'g' in
  let single kind def = match List.filter (fun (k, _, _) -> k = kind) es with (_, _, v) :: _ -> v | [] -> def in
  { env_var = (fun k -> Option.map str_of_bytes (lookup envs k));
    sh_var = (fun k -> Option.map str_of_bytes (lookup shs k));
    status = z_of_int (int_of_string (single 'Q' "0"));
    pid = z_of_int (int_of_string (single 'P' "99999989"));
    home = str_of_bytes (single 'H' "/home/u");
    glob = (fun p -> if List.mem_assoc p globf then None else
                     match lookup globs p with
                     | Some v -> Some (List.map str_of_bytes (split_on '\x1c' v))
                     | None -> Some []);
    run_capture = (fun l -> if List.mem_assoc l runf then None else
                            match lookup runs l with Some v -> Some (str_of_bytes v) | None -> Some []);
    aliases = (fun k -> Option.map str_of_bytes (lookup als k)) }

(* alias values are tokenized by the extracted parse_line (Model/Tokenizer.v) *)
let tokenize (s : n list) : (tag * n list) list = parse_line s


let rerr = function
  | EBadNearAmp -> "EBadNearAmp" | EBadFd1 -> "EBadFd1" | EBadFd2 -> "EBadFd2"
  | EBadFd3 -> "EBadFd3" | ESyntax -> "ESyntax"
let redirs_str rd =
  "[" ^ String.concat "," (List.map (fun ((a, b), c) -> "(" ^ q a ^ "," ^ q b ^ "," ^ q c ^ ")") rd) ^ "]"
let cmd_str c =
  "C(tokens=" ^ show_toks c.c_tokens ^ ",redirs=" ^ redirs_str c.c_redirs ^ ",from=" ^
  (match c.c_from with None -> "None" | Some (t, v) -> "(" ^ q t ^ "," ^ q v ^ ")") ^ ")"
let perr = function PRedir e -> "E(" ^ rerr e ^ ")" | PFuel -> "E(FUEL)" | PEmpty -> "E(EEmpty)"

(* HashMap semantics for envs: last binding wins; printed sorted by name *)
let envs_str envs =
  let tbl = Hashtbl.create 8 in
  List.iter (fun (k, v) -> Hashtbl.replace tbl (bytes_of_str k) v) envs;
  let ks = List.sort compare (Hashtbl.fold (fun k _ acc -> k :: acc) tbl []) in
  "[" ^ String.concat "," (List.map (fun k -> "\"" ^ enc_bytes k ^ "\"=" ^ q (Hashtbl.find tbl k)) ks) ^ "]"

let plan_str = function
  | Inl cl -> "P(bg=" ^ (if cl.cl_bg then "1" else "0") ^ ",envs=" ^ envs_str cl.cl_envs ^
              ",cmds=[" ^ String.concat "," (List.map cmd_str cl.cl_cmds) ^ "])"
  | Inr e -> perr e

let () =
  iter_lines (fun l ->
    let out =
      try
        match split_tab l with
        | ["plan"; w; fuel; s] ->
            (match plan_log (world_of_field w) (nat_of_int (int_of_string fuel)) (str_of_field s) with
             | Ok ((toks, _), p) -> "exp=" ^ show_toks toks ^ " plan=" ^ plan_str p
             | Panic _ -> "PANIC" | OutOfFuel -> "HANG")
        | ["plantok"; t] -> plan_str (plan_tokens (toks_of_field t))
        | _ -> "?bad-case"
      with Failure m -> "?model-driver-failure:" ^ m in
    print_endline out) Sys.argv.(1)
