open C03_model
open Codec

let rec pos_of_int i = if i = 1 then XH else if i land 1 = 0 then XO (pos_of_int (i lsr 1)) else XI (pos_of_int (i lsr 1))
let n_of_int i = if i = 0 then N0 else Npos (pos_of_int i)
let rec int_of_pos = function XH -> 1 | XO p -> 2 * int_of_pos p | XI p -> 2 * int_of_pos p + 1
let int_of_n = function N0 -> 0 | Npos p -> int_of_pos p
let z_of_int i = if i = 0 then Z0 else if i > 0 then Zpos (pos_of_int i) else Zneg (pos_of_int (-i))
let int_of_z = function Z0 -> 0 | Zpos p -> int_of_pos p | Zneg p -> - (int_of_pos p)

let str_of_field f = List.map n_of_int (utf8_decode (dec_bytes f))
let q (s : n list) = "\"" ^ enc_bytes (utf8_encode (List.map int_of_n s)) ^ "\""

(* The oracle for one pipeline used by the process-level layer: every
   generated pipeline has the shape  <helper> @x<status> <marker> [decoys...]
   and exits with <status>; "@x$?" means the previous status (what $? reads).
   World = previous status. The calls are logged for printing. *)
let words (s : n list) : string list =
  let b = utf8_encode (List.map int_of_n s) in
  List.filter (fun w -> w <> "") (String.split_on_char ' ' b)

let oracle (w : z) (seg : n list) : z * z =
  match words seg with
  | v :: _ when String.length v >= 3 && v.[0] = 'V' && String.contains v '=' -> (z_of_int 0, z_of_int 0)   (* assignment only *)
  | "cd" :: _ -> (z_of_int 1, z_of_int 1)                (* cd to a missing directory *)
  | "nosuchcmd_zz" :: _ -> (z_of_int 127, z_of_int 127)  (* command not found *)
  | ws when List.mem "&" ws && List.nth ws (List.length ws - 1) = "&" -> (z_of_int 0, z_of_int 0)   (* background: goes on at once, status 0 *)
  | _ :: ctl :: _ when String.length ctl >= 2 && ctl.[0] = '@'
                       && List.exists (fun a -> String.length a >= 1 && a.[0] = 'x')
                            (String.split_on_char ',' (String.sub ctl 1 (String.length ctl - 1))) ->
      (* actions are comma separated; x<N> = exit status N, x$? = the previous status *)
      let acts = String.split_on_char ',' (String.sub ctl 1 (String.length ctl - 1)) in
      let xa = List.find (fun a -> String.length a >= 1 && a.[0] = 'x') acts in
      let st = String.sub xa 1 (String.length xa - 1) in
      let v = if st = "$?" then int_of_z w else (try int_of_string st with _ -> 127) in
      (z_of_int v, z_of_int v)
  | _ -> (z_of_int 0, z_of_int 0)

let () =
  iter_lines (fun l ->
    match split_tab l with
    | ["l2c"; f] ->
        let r = line_to_cmds (str_of_field f) in
        print_endline ("[" ^ String.concat "," (List.map q r) ^ "]")
    | ["run"; f] ->
        let e = run_command_line oracle (z_of_int 0) (str_of_field f) in
        let ran = List.map (fun (t, st) -> q t ^ ":" ^ string_of_int (int_of_z st)) e.e_ran in
        print_endline ("ran=[" ^ String.concat "," ran ^ "] status=" ^ string_of_int (int_of_z e.e_status))
    | _ -> print_endline "?bad-case") Sys.argv.(1)
