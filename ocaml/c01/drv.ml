open C01_model
open Codec

let rec pos_of_int i = if i = 1 then XH else if i land 1 = 0 then XO (pos_of_int (i lsr 1)) else XI (pos_of_int (i lsr 1))
let n_of_int i = if i = 0 then N0 else Npos (pos_of_int i)
let rec int_of_pos = function XH -> 1 | XO p -> 2 * int_of_pos p | XI p -> 2 * int_of_pos p + 1
let int_of_n = function N0 -> 0 | Npos p -> int_of_pos p

let str_of_field f = List.map n_of_int (utf8_decode (dec_bytes f))
let q (s : n list) = "\"" ^ enc_bytes (utf8_encode (List.map int_of_n s)) ^ "\""

let tagc = function TNone -> "" | TSq -> "'" | TDq -> "\"" | TBq -> "`" | TBs -> "\\"
let tag_of_field f = match dec_bytes f with
  | "" -> TNone | "'" -> TSq | "\"" -> TDq | "`" -> TBq | "\\" -> TBs | _ -> failwith "bad tag"
let qs s = "\"" ^ enc_bytes s ^ "\""
let tokens_str toks =
  "[" ^ String.concat "," (List.map (fun (t, w) -> "(" ^ qs (tagc t) ^ "," ^ q w ^ ")") toks) ^ "]"

let rec tokens_of_fields = function
  | [] -> []
  | [""] -> []
  | t :: w :: r -> (tag_of_field t, str_of_field w) :: tokens_of_fields r
  | _ -> failwith "odd token fields"

let rerr = function
  | EBadNearAmp -> "EBadNearAmp" | EBadFd1 -> "EBadFd1" | EBadFd2 -> "EBadFd2"
  | EBadFd3 -> "EBadFd3" | ESyntax -> "ESyntax"
let redirs_str rd =
  "[" ^ String.concat "," (List.map (fun ((a, b), c) -> "(" ^ q a ^ "," ^ q b ^ "," ^ q c ^ ")") rd) ^ "]"
let cmd_str c =
  "C(tokens=" ^ tokens_str c.c_tokens ^ ",redirs=" ^ redirs_str c.c_redirs ^ ",from=" ^
  (match c.c_from with None -> "None" | Some (t, v) -> "(" ^ q t ^ "," ^ q v ^ ")") ^ ")"
let perr = function PRedir e -> "E(" ^ rerr e ^ ")" | PFuel -> "E(FUEL)" | PEmpty -> "E(EEmpty)"

(* HashMap semantics for envs: last binding wins; printed sorted by name *)
let envs_str envs =
  let tbl = Hashtbl.create 8 in
  List.iter (fun (k, v) -> Hashtbl.replace tbl (utf8_encode (List.map int_of_n k)) v) envs;
  let ks = List.sort compare (Hashtbl.fold (fun k _ acc -> k :: acc) tbl []) in
  "[" ^ String.concat "," (List.map (fun k -> qs k ^ "=" ^ q (Hashtbl.find tbl k)) ks) ^ "]"

let () =
  iter_lines (fun l ->
    match split_tab l with
    | ["tok"; f] ->
        let s = str_of_field f in
        print_endline (tokens_str (parse_line s) ^ " complete=" ^ (if is_complete s then "1" else "0"))
    | ["l2c"; f] ->
        print_endline ("[" ^ String.concat "," (List.map q (line_to_cmds (str_of_field f))) ^ "]")
    | "redir" :: fs ->
        (match tokens_to_redirections (tokens_of_fields fs) with
         | Inl (tk, rd) -> print_endline ("R(tokens=" ^ tokens_str tk ^ ",redirs=" ^ redirs_str rd ^ ")")
         | Inr e -> print_endline ("E(" ^ rerr e ^ ")"))
    | "fromtok" :: fs ->
        (match from_tokens (tokens_of_fields fs) with
         | Inl c -> print_endline (cmd_str c)
         | Inr e -> print_endline (perr e))
    | "plantok" :: fs ->
        (match plan_tokens (tokens_of_fields fs) with
         | Inl cl -> print_endline ("P(bg=" ^ (if cl.cl_bg then "1" else "0") ^ ",envs=" ^ envs_str cl.cl_envs ^
                                    ",cmds=[" ^ String.concat "," (List.map cmd_str cl.cl_cmds) ^ "])")
         | Inr e -> print_endline (perr e))
    | ["unquote"; f] -> print_endline (q (unquote (str_of_field f)))
    | _ -> print_endline "?bad-case") Sys.argv.(1)
