open C09_model
open Codec

let rec pos_of_int i = if i = 1 then XH else if i land 1 = 0 then XO (pos_of_int (i lsr 1)) else XI (pos_of_int (i lsr 1))
let n_of_int i = if i = 0 then N0 else Npos (pos_of_int i)
let rec int_of_pos = function XH -> 1 | XO p -> 2 * int_of_pos p | XI p -> 2 * int_of_pos p + 1
let int_of_n = function N0 -> 0 | Npos p -> int_of_pos p

let str_of_bytes b = List.map n_of_int (utf8_decode b)
let bytes_of_str s = utf8_encode (List.map int_of_n s)
let str_of_field f = str_of_bytes (dec_bytes f)
let q (s : n list) = "\"" ^ enc_bytes (bytes_of_str s) ^ "\""
let b2s b = if b then "true" else "false"

let tag_of = function "" -> TNone | "'" -> TSq | "\"" -> TDq | "`" -> TBq | "\\" -> TBs | _ -> failwith "tag"
let tag_str = function TNone -> "" | TSq -> "'" | TDq -> "\"" | TBq -> "`" | TBs -> "\\"

(* names whose bindings are printed (the rest of the real environment is not modelled) *)
let tracked = ["A"; "B"; "AB"; "A_1"; "HOME"; "IFS"; "PWD"; "REPLY"]

let sorted_map (m : (str * str) list) : string =
  let l = List.map (fun (k, v) -> (bytes_of_str k, v)) m in
  let l = List.sort (fun (a, _) (b, _) -> compare a b) l in
  "{" ^ String.concat "," (List.map (fun (k, v) -> enc_bytes k ^ "=" ^ q v) l) ^ "}"

let rec avalues (m : (str * str) list) (k : str) : str list =
  match m with [] -> [] | (k', v) :: r -> if k' = k then v :: avalues r k else avalues r k

let env_view (f : string -> str list) : string =
  "[" ^ String.concat "," (List.concat_map (fun nm -> List.map (fun v -> nm ^ ":" ^ q v) (f nm)) tracked) ^ "]"

let qlist l = "[" ^ String.concat "," (List.map q l) ^ "]"

let outcome_str = function
  | OStatus ok -> if ok then "st=0" else "st=1"
  | OChild (argv, e, d) ->
      "child argv=" ^ qlist (List.tl argv) ^ " env=" ^ env_view (fun nm -> avalues e (str_of_bytes nm)) ^ " cwd=" ^ q d
  | OVal v -> "val=" ^ q (match v with Some x -> x | None -> [])
  | OPanic -> "PANIC"

let sout_str = function
  | SStatus ok -> if ok then "st=0" else "st=1"
  | SChild (argv, f, d) ->
      "child argv=" ^ qlist (List.tl argv) ^ " env=" ^
      env_view (fun nm -> match f (str_of_bytes nm) with Some v -> [v] | None -> []) ^ " cwd=" ^ q d
  | SVal v -> "val=" ^ q (match v with Some x -> x | None -> [])

let state_str (s : st) : string =
  "L" ^ sorted_map s.locals ^ " E" ^ sorted_map s.envp ^ " cwd=" ^ q s.cwd ^ " prev=" ^ q s.prev

(* ---- decoding of the abstract operations: items separated by 0x1f *)
let items (f : string) : string list = String.split_on_char '\x1f' (dec_bytes f)

let qstyle_of = function "s" -> QSq | "d" -> QDq | "b" -> QBare | _ -> failwith "qstyle"

let rec asgs = function
  | [] -> []
  | qs :: n :: v :: r -> { a_name = str_of_bytes n; a_val = str_of_bytes v; a_q = qstyle_of qs } :: asgs r
  | _ -> failwith "asg triples"

let rec take k l = if k = 0 then [] else match l with x :: r -> x :: take (k - 1) r | [] -> failwith "take"
let rec drop k l = if k = 0 then l else match l with _ :: r -> drop (k - 1) r | [] -> failwith "drop"

let op_of (f : string) : op =
  match items f with
  | "A" :: r -> Assign (asgs r)
  | "P" :: prog :: k :: r ->
      let k = int_of_string k in
      Prefixed (asgs (drop k r), str_of_bytes prog, List.map (fun a -> (TNone, str_of_bytes a)) (take k r))
  | "E" :: r -> Export (asgs r)
  | ["U"; n] -> Unset (str_of_bytes n)
  | "R" :: k :: r ->
      let k = int_of_string k in
      (match drop k r with
       | line :: tr -> Read (asgs tr, List.map str_of_bytes (take k r), str_of_bytes line)
       | [] -> failwith "read")
  | ["C"] -> Cd None
  | ["C"; a] -> Cd (Some (str_of_bytes a))
  | ["F"; n] -> Ref (str_of_bytes n)
  | _ -> failwith "op"

(* fs table: records separated by 0x1e, fields by 0x1f: path, exists, canon or !, chdir *)
let world_of (f : string) : world =
  let tbl = Hashtbl.create 64 in
  List.iter (fun r ->
    if r <> "" then
      match String.split_on_char '\x1f' r with
      | [p; e; c; d] -> Hashtbl.replace tbl p (e = "1", (if c = "!" then None else Some c), d = "1")
      | _ -> failwith "fs record") (String.split_on_char '\x1e' (dec_bytes f));
  let look p = try Some (Hashtbl.find tbl (bytes_of_str p)) with Not_found -> None in
  { w_exists = (fun p -> match look p with Some (e, _, _) -> e | None -> false);
    w_canon = (fun p -> match look p with Some (_, Some c, _) -> Some (str_of_bytes c) | _ -> None);
    w_chdir = (fun p -> match look p with Some (_, _, d) -> d | None -> false);
    w_tilde = (fun v -> v) }

let pairs_of (f : string) : (str * str) list =
  List.filter_map (fun r ->
    if r = "" then None else
    match String.index_opt r '=' with
    | Some i -> Some (str_of_bytes (String.sub r 0 i), str_of_bytes (String.sub r (i + 1) (String.length r - i - 1)))
    | None -> failwith "pair") (String.split_on_char '\x1f' (dec_bytes f))

let rec tokens = function
  | [] -> []
  | t :: x :: r -> (tag_of (dec_bytes t), str_of_field x) :: tokens r
  | _ -> failwith "tokens"

let () =
  iter_lines (fun l ->
    match split_tab l with
    | ["unq"; f] -> print_endline (q (unquote (str_of_field f)))
    | ["isenv"; f] -> print_endline (b2s (is_env (str_of_field f)))
    | ["rmname"; f] -> print_endline (b2s (unset_name_ok (str_of_field f)))
    | "drain" :: r ->
        let (envs, rest) = drain (tokens r) [] in
        print_endline ("envs=" ^ sorted_map envs ^ " rest=[" ^
          String.concat "," (List.map (fun (t, x) -> "(\"" ^ enc_bytes (tag_str t) ^ "\"," ^ q x ^ ")") rest) ^ "]")
    | ["split"; loc; env; cmd; line] ->
        let opt f nm = if f = "-" then [] else [(str_of_bytes nm, str_of_field (String.sub f 1 (String.length f - 1)))] in
        let s = { locals = opt loc "IFS"; envp = opt env "IFS"; cwd = []; prev = [] } in
        print_endline (qlist (split_into_fields s (str_of_field line) (opt cmd "IFS")))
    | "hist" :: root :: fs :: env0 :: ops ->
        let w = world_of fs in
        let s0 = { locals = []; envp = pairs_of env0; cwd = str_of_field root; prev = [] } in
        let buf = Buffer.create 256 in
        let rec go s = function
          | [] -> ()
          | [_] -> failwith "op without text"
          | f :: _text :: r ->
              let o = op_of f in
              let a = abs s in
              let (_, so) = spec_step w a o in
              let (s', out) = step w s (render o) in
              if Buffer.length buf > 0 then Buffer.add_char buf '\t';
              Buffer.add_string buf (outcome_str out ^ "|" ^ state_str s' ^ "|" ^ sout_str so ^ "|" ^
                                     (if wf_op o then "wf" else "illformed"));
              (match out with OPanic -> () | _ -> go s' r) in
        go s0 ops;
        print_endline (Buffer.contents buf)
    | _ -> print_endline "?bad-case") Sys.argv.(1)
