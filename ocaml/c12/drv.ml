(* Driver around the extracted expansion model (shared text for c10 / c11 / c12:
   only the first line differs -- tools/sync_expand_drv.sh regenerates the copies). *)
open C12_model
open Codec

let rec pos_of_int i = if i = 1 then XH else if i land 1 = 0 then XO (pos_of_int (i lsr 1)) else XI (pos_of_int (i lsr 1))
let n_of_int i = if i = 0 then N0 else Npos (pos_of_int i)
let rec int_of_pos = function XH -> 1 | XO p -> 2 * int_of_pos p | XI p -> 2 * int_of_pos p + 1
let int_of_n = function N0 -> 0 | Npos p -> int_of_pos p
let z_of_int i = if i = 0 then Z0 else if i > 0 then Zpos (pos_of_int i) else Zneg (pos_of_int (-i))
let int_of_z = function Z0 -> 0 | Zpos p -> int_of_pos p | Zneg p -> - (int_of_pos p)
let rec nat_of_int i = if i <= 0 then O else S (nat_of_int (i - 1))

let str_of_bytes (b : String.t) : n list = List.map n_of_int (utf8_decode b)
let bytes_of_str (s : n list) : String.t = utf8_encode (List.map int_of_n s)
let str_of_field f = str_of_bytes (dec_bytes f)
let q (s : n list) = "\"" ^ enc_bytes (bytes_of_str s) ^ "\""
let qlist l = "[" ^ String.concat "," (List.map q l) ^ "]"

let tag_of_char = function 'n' -> TNone | 's' -> TSq | 'd' -> TDq | 'b' -> TBq | 'e' -> TBs | _ -> failwith "tag"
let tag_text = function TNone -> "" | TSq -> "'" | TDq -> "\"" | TBq -> "`" | TBs -> "\\"

let split_on (c : Char.t) (s : String.t) : String.t list = if s = "" then [] else String.split_on_char c s

let toks_of_field f : (tag * n list) list =
  List.map (fun e -> (tag_of_char e.[0], str_of_bytes (String.sub e 1 (String.length e - 1))))
    (split_on '\x1f' (dec_bytes f))

let show_toks (t : (tag * n list) list) =
  "[" ^ String.concat "," (List.map (fun (tg, s) -> "(\"" ^ enc_bytes (tag_text tg) ^ "\"," ^ q s ^ ")") t) ^ "]"

(* world field: entries separated by 0x1e; entry = kind char, key, 0x1d, value *)
let world_of_field f : world =
  let es = split_on '\x1e' (dec_bytes f) in
  let parse e =
    let k = e.[0] in
    let body = String.sub e 1 (String.length e - 1) in
    match String.index_opt body '\x1d' with
    | Some i -> (k, String.sub body 0 i, String.sub body (i + 1) (String.length body - i - 1))
    | None -> (k, body, "") in
  let es = List.map parse es in
  let table kind = List.filter_map (fun (k, a, b) -> if k = kind then Some (str_of_bytes a, b) else None) es in
  let lookup tbl key = List.assoc_opt key tbl in
  let envs = table 'E' and shs = table 'S' and als = table 'A' and runs = table 'R' and runf = table 'r'
  and globs = table 'G' and globf = table 'g' in
  let single kind def = match List.filter (fun (k, _, _) -> k = kind) es with (_, _, v) :: _ -> v | [] -> def in
  { env_var = (fun k -> Option.map str_of_bytes (lookup envs k));
    sh_var = (fun k -> Option.map str_of_bytes (lookup shs k));
    status = z_of_int (int_of_string (single 'Q' "0"));
    pid = z_of_int (int_of_string (single 'P' "99999989"));
    home = str_of_bytes (single 'H' "/home/u");
    glob = (fun p -> if List.mem_assoc p globf then None else
                     match lookup globs p with
                     | Some v -> Some (List.map str_of_bytes (split_on '\x1c' v))
                     | None -> Some []);
    run_capture = (fun l -> if List.mem_assoc l runf then None else
                            match lookup runs l with Some v -> Some (str_of_bytes v) | None -> Some []);
    aliases = (fun k -> Option.map str_of_bytes (lookup als k)) }

(* alias values are tokenized by the extracted parse_line (Model/Tokenizer.v) *)
let tokenize (s : n list) : (tag * n list) list = parse_line s

let show_res f r = match r with
  | Ok a -> f a | Panic _ -> "PANIC" | OutOfFuel -> "HANG"

let b2s b = if b then "T" else "F"

(* pieces: joined by 0x1f: L<char> U<key> B<key> *)
let pieces_of_field f : piece list =
  List.map (fun e ->
    let body = str_of_bytes (String.sub e 1 (String.length e - 1)) in
    match e.[0] with
    | 'L' -> PLit (List.hd body)
    | 'U' -> PRef (false, body)
    | 'B' -> PRef (true, body)
    | _ -> failwith "piece") (split_on '\x1f' (dec_bytes f))

(* brace terms are sent rendered; this is the inverse of render_term on well-formed terms *)
let parse_term (s : int list) : term =
  let rec term s stop_inner = match s with
    | [] -> (TEnd, [])
    | c :: r when stop_inner && (c = 44 || c = 125) -> (TEnd, s)
    | 123 :: r ->
        let (a, r1) = alts r in
        (match r1 with
         | 125 :: r2 -> let (k, r3) = term r2 stop_inner in (TGrp (a, k), r3)
         | _ -> failwith "unbalanced term")
    | c :: r -> let (k, r1) = term r stop_inner in (TChr (n_of_int c, k), r1)
  and alts s =
    let (t, r) = term s true in
    match r with
    | 44 :: r1 -> let (a, r2) = alts r1 in (ACons (t, a), r2)
    | _ -> (AOne t, r) in
  let (t, r) = term s false in
  if r <> [] then failwith "trailing text in term" else t

let () =
  iter_lines (fun l ->
    let out =
      try
        match split_tab l with
        | ["eit"; s] -> b2s (env_in_token (str_of_field s))
        | ["neb"; s] -> b2s (need_expand_brace (str_of_field s))
        | ["ng"; s] -> b2s (needs_globbing (str_of_field s))
        | ["sdd"; s] -> b2s (should_do_dollar (str_of_field s))
        | ["once"; w; s] -> q (expand_env_once (world_of_field w) (str_of_field s))
        | ["env"; w; _; t] -> show_toks (expand_env (world_of_field w) (toks_of_field t))
        | ["bgi"; s; d] ->
            show_res (fun (o, r) -> "(" ^ qlist o ^ "," ^ q r ^ ")")
              (brace_getitem (str_of_field s) (nat_of_int (int_of_string d)))
        | ["bgg"; s; d] ->
            show_res (function None -> "None" | Some (o, r) -> "Some(" ^ qlist o ^ "," ^ q r ^ ")")
              (brace_getgroup (str_of_field s) (nat_of_int (int_of_string d)))
        | ["eb"; t] -> show_res show_toks (expand_brace (toks_of_field t))
        | ["ebr"; oc; t] -> show_res show_toks (expand_brace_range (toks_of_field t))
        | ["eh"; w; t] -> show_toks (expand_home (world_of_field w) (toks_of_field t))
        | ["eg"; w; t] -> show_res show_toks (expand_glob (world_of_field w) (toks_of_field t))
        | ["cs"; w; fuel; t] ->
            show_res (fun (t, log) -> show_toks t ^ " calls=" ^ qlist log)
              (do_command_substitution (nat_of_int (int_of_string fuel)) (world_of_field w) (toks_of_field t))
        | ["dx"; w; fuel; t] ->
            show_res (fun (t, log) -> show_toks t ^ " calls=" ^ qlist log)
              (do_expansion_log tokenize (world_of_field w) (nat_of_int (int_of_string fuel)) (toks_of_field t))
        | ["den"; w; ps] ->
            let w = world_of_field w and ps = pieces_of_field ps in
            q (render_pieces ps) ^ " " ^ q (den_pieces w ps) ^ " wf=" ^ b2s (wf_pieces ps) ^ " gate=" ^ b2s (gate_ok ps) ^ " gateq=" ^ b2s (gate_ok_dq ps)
        | ["term"; s] ->
            let t = parse_term (utf8_decode (dec_bytes s)) in
            q (render_term t) ^ " " ^ qlist (den_term t) ^ " wf=" ^ b2s (wf_term t)
        | ["rref"; a; b; s] ->
            "[" ^ String.concat "," (List.map (fun z -> string_of_int (int_of_z z))
              (range_ref (z_of_int (int_of_string a)) (z_of_int (int_of_string b)) (z_of_int (int_of_string s)))) ^ "]"
        | _ -> "?bad-case"
      with Failure m -> "?model-driver-failure:" ^ m in
    print_endline out) Sys.argv.(1)
