open C04r_model
open Codec

let rec pos_of_int i = if i = 1 then XH else if i land 1 = 0 then XO (pos_of_int (i lsr 1)) else XI (pos_of_int (i lsr 1))
let n_of_int i = if i = 0 then N0 else Npos (pos_of_int i)
let rec int_of_pos = function XH -> 1 | XO p -> 2 * int_of_pos p | XI p -> 2 * int_of_pos p + 1
let int_of_n = function N0 -> 0 | Npos p -> int_of_pos p
let rec int_of_nat = function O -> 0 | S k -> 1 + int_of_nat k

let str_of_field f = List.map n_of_int (utf8_decode (dec_bytes f))
let q (s : n list) = "\"" ^ enc_bytes (utf8_encode (List.map int_of_n s)) ^ "\""

(* alternating fields  sep word sep word ...  -> token list *)
let rec toks_of_fields = function
  | s :: w :: r -> (str_of_field s, str_of_field w) :: toks_of_fields r
  | _ -> []

let toks_str ts = "[" ^ String.concat "," (List.map (fun (s, w) -> "(" ^ q s ^ "," ^ q w ^ ")") ts) ^ "]"
let redirs_str rs =
  "[" ^ String.concat "," (List.map (fun ((a, b), c) -> "(" ^ q a ^ "," ^ q b ^ "," ^ q c ^ ")") rs) ^ "]"

let () =
  iter_lines (fun l ->
    match split_tab l with
    | "ttr" :: fs ->
        (match tokens_to_redirections (toks_of_fields fs) with
         | RErr c -> print_endline ("ERR " ^ string_of_int (int_of_nat c))
         | ROk (t, r) -> print_endline ("OK toks=" ^ toks_str t ^ " redirs=" ^ redirs_str r))
    | (("ft" | "fta") as kind) :: fs ->
        (* ft = Command::from_tokens as it is; fta = the function before /repo 543507e (no split of attached <file) *)
        (match (if kind = "ft" then from_tokens else from_tokens_core) (toks_of_fields fs) with
         | R2Err c -> print_endline ("ERR " ^ string_of_int (int_of_nat c))
         | R2OutOfFuel -> print_endline "OUT-OF-FUEL"
         | R2Panic -> print_endline "PANIC"
         | R2Ok (t, r, fr) ->
             let f = match fr with None -> "none" | Some (a, b) -> "(" ^ q a ^ "," ^ q b ^ ")" in
             print_endline ("OK toks=" ^ toks_str t ^ " redirs=" ^ redirs_str r ^ " from=" ^ f))
    | _ -> print_endline "?bad-case") Sys.argv.(1)
