open C19_model
open Codec

let rec pos_of_int i = if i = 1 then XH else if i land 1 = 0 then XO (pos_of_int (i lsr 1)) else XI (pos_of_int (i lsr 1))
let n_of_int i = if i = 0 then N0 else Npos (pos_of_int i)
let rec int_of_pos = function XH -> 1 | XO p -> 2 * int_of_pos p | XI p -> 2 * int_of_pos p + 1
let int_of_n = function N0 -> 0 | Npos p -> int_of_pos p

(* i64 results: the model keeps them inside [-2^63, 2^63-1]; Int64 arithmetic wraps,
   so the magnitude 2^63 of i64::MIN comes out right after negation *)
let rec i64_of_pos = function
  | XH -> 1L
  | XO p -> Int64.mul 2L (i64_of_pos p)
  | XI p -> Int64.add (Int64.mul 2L (i64_of_pos p)) 1L
let i64_of_z = function Z0 -> 0L | Zpos p -> i64_of_pos p | Zneg p -> Int64.neg (i64_of_pos p)

let str_of_field f = List.map n_of_int (utf8_decode (dec_bytes f))
let raw (s : n list) = utf8_encode (List.map int_of_n s)
let q (s : n list) = "\"" ^ enc_bytes (raw s) ^ "\""

let op_s = function Add -> "+" | Sub -> "-" | Mul -> "*" | Div -> "/" | Pow -> "^"

let rec pairs_s (ps : n list pair list) =
  String.concat " " (List.map (function
    | PNum s -> "n" ^ q s
    | POp o -> op_s o
    | PExpr inner -> "( " ^ pairs_s inner ^ " )") ps)

(* JSON: literals are made of digits, signs, dot, e *)
let rec tree_s (t : n list tree) =
  match t with
  | Leaf s -> "\"" ^ raw s ^ "\""
  | Node (o, a, b) -> "[\"" ^ op_s o ^ "\"," ^ tree_s a ^ "," ^ tree_s b ^ "]"


let diag_s = function DRange -> "number out of range" | DNegExp -> "negative exponent"

let result_s (r : calc_result) =
  match r with
  | RSyntax -> "err \"syntax error\""
  | RFuel -> "fuel"
  | RInt (Ok (IVal z)) -> "ok \"" ^ Int64.to_string (i64_of_z z) ^ "\""
  | RInt (Ok (IDiag d)) -> "err \"" ^ diag_s d ^ "\""
  | RInt Panic -> "PANIC struct"
  | RInt OutOfFuel -> "fuel"
  | RFloat (Ok t) -> "float " ^ tree_s t
  | RFloat Panic -> "PANIC struct"
  | RFloat OutOfFuel -> "fuel"

(* float mode: the f64 oracle instantiated with OCaml floats (IEEE binary64, like Rust's f64).
   + - * / are the hardware operations in both; f64::powf calls the C library's pow, as
   OCaml's ( ** ) does. str::parse::<f64> is correctly rounded (core::num::dec2flt) and so is
   float_of_string (glibc strtod); the accepted syntax is the model's [f64_syntax] (what dec2flt
   accepts, minus inf/nan spellings) -- float_of_string alone would also take hex and '_'. *)
let fl_ops = {
  f_add = (fun a b -> a +. b);
  f_sub = (fun a b -> a -. b);
  f_mul = (fun a b -> a *. b);
  f_div = (fun a b -> a /. b);
  f_pow = (fun a b -> a ** b);
  f_lit = (fun s -> if f64_syntax s then float_of_string_opt (raw s) else None);
}

(* the bit pattern; every NaN is printed as nan (payload and sign of a NaN are not observable
   through Display) *)
let bits_s (x : float) =
  if x <> x then "f nan" else Printf.sprintf "f %016Lx" (Int64.bits_of_float x)

let result_f_s r =
  match r with
  | FSyntax -> "err \"syntax error\""
  | FFuel -> "fuel"
  | FInt (Ok (IVal z)) -> "ok \"" ^ Int64.to_string (i64_of_z z) ^ "\""
  | FInt (Ok (IDiag d)) -> "err \"" ^ diag_s d ^ "\""
  | FInt Panic -> "PANIC struct"
  | FInt OutOfFuel -> "fuel"
  | FFloat (Ok (Some x)) -> bits_s x
  | FFloat (Ok None) -> "PANIC unwrap"
  | FFloat Panic -> "PANIC struct"
  | FFloat OutOfFuel -> "fuel"

let () =
  iter_lines (fun l ->
    match split_tab l with
    | ["isar"; f] -> print_endline (if is_arithmetic (str_of_field f) then "true" else "false")
    | ["pl"; f] ->
        (match parse_line_arith (str_of_field f) with
         | None -> print_endline "none"
         | Some ts -> print_endline ("[" ^ String.concat "," (List.map q ts) ^ "]"))
    | ["pairs"; f] ->
        (match parse_calc (str_of_field f) with
         | POk ps -> print_endline ("ok " ^ pairs_s ps)
         | PFail -> print_endline "err"
         | PFuel -> print_endline "fuel")
    | ["pegpairs"; f] ->
        (match peg_pairs (str_of_field f) with
         | GOk ps -> print_endline ("ok " ^ pairs_s ps)
         | GFail -> print_endline "err"
         | GFuel -> print_endline "fuel"
         | GBad -> print_endline "?bad-tree")
    | ["calc"; f] -> print_endline (result_s (run_calculator (str_of_field f)))
    | ["calcf"; f] -> print_endline (result_f_s (run_calculator_f fl_ops (str_of_field f)))
    | ["try"; f] ->
        (match try_run_calculator (str_of_field f) with
         | None -> print_endline "none"
         | Some r -> print_endline (result_s r))
    | _ -> print_endline "?bad-case") Sys.argv.(1)
