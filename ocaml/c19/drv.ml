open C19_model
open Codec

let rec pos_of_int i = if i = 1 then XH else if i land 1 = 0 then XO (pos_of_int (i lsr 1)) else XI (pos_of_int (i lsr 1))
let n_of_int i = if i = 0 then N0 else Npos (pos_of_int i)
let rec int_of_pos = function XH -> 1 | XO p -> 2 * int_of_pos p | XI p -> 2 * int_of_pos p + 1
let int_of_n = function N0 -> 0 | Npos p -> int_of_pos p

(* i64 results: the model keeps them inside [-2^63, 2^63-1]; Int64 arithmetic wraps,
   so the magnitude 2^63 of i64::MIN comes out right after negation *)
let rec i64_of_pos = function
  | XH -> 1L
  | XO p -> Int64.mul 2L (i64_of_pos p)
  | XI p -> Int64.add (Int64.mul 2L (i64_of_pos p)) 1L
let i64_of_z = function Z0 -> 0L | Zpos p -> i64_of_pos p | Zneg p -> Int64.neg (i64_of_pos p)

let str_of_field f = List.map n_of_int (utf8_decode (dec_bytes f))
let raw (s : n list) = utf8_encode (List.map int_of_n s)
let q (s : n list) = "\"" ^ enc_bytes (raw s) ^ "\""

let op_s = function Add -> "+" | Sub -> "-" | Mul -> "*" | Div -> "/" | Pow -> "^"

let rec pairs_s (ps : n list pair list) =
  String.concat " " (List.map (function
    | PNum s -> "n" ^ q s
    | POp o -> op_s o
    | PExpr inner -> "( " ^ pairs_s inner ^ " )") ps)

(* JSON: literals are made of digits, signs, dot, e *)
let rec tree_s (t : n list tree) =
  match t with
  | Leaf s -> "\"" ^ raw s ^ "\""
  | Node (o, a, b) -> "[\"" ^ op_s o ^ "\"," ^ tree_s a ^ "," ^ tree_s b ^ "]"


let diag_s = function DRange -> "number out of range" | DNegExp -> "negative exponent"

let result_s (r : calc_result) =
  match r with
  | RSyntax -> "err \"syntax error\""
  | RFuel -> "fuel"
  | RInt (Ok (IVal z)) -> "ok \"" ^ Int64.to_string (i64_of_z z) ^ "\""
  | RInt (Ok (IDiag d)) -> "err \"" ^ diag_s d ^ "\""
  | RInt Panic -> "PANIC struct"
  | RInt OutOfFuel -> "fuel"
  | RFloat (Ok t) -> "float " ^ tree_s t
  | RFloat Panic -> "PANIC struct"
  | RFloat OutOfFuel -> "fuel"

let () =
  iter_lines (fun l ->
    match split_tab l with
    | ["isar"; f] -> print_endline (if is_arithmetic (str_of_field f) then "true" else "false")
    | ["pl"; f] ->
        (match parse_line_arith (str_of_field f) with
         | None -> print_endline "none"
         | Some ts -> print_endline ("[" ^ String.concat "," (List.map q ts) ^ "]"))
    | ["pairs"; f] ->
        (match parse_calc (str_of_field f) with
         | POk ps -> print_endline ("ok " ^ pairs_s ps)
         | PFail -> print_endline "err"
         | PFuel -> print_endline "fuel")
    | ["pegpairs"; f] ->
        (match peg_pairs (str_of_field f) with
         | GOk ps -> print_endline ("ok " ^ pairs_s ps)
         | GFail -> print_endline "err"
         | GFuel -> print_endline "fuel"
         | GBad -> print_endline "?bad-tree")
    | ["calc"; f] -> print_endline (result_s (run_calculator (str_of_field f)))
    | ["try"; f] ->
        (match try_run_calculator (str_of_field f) with
         | None -> print_endline "none"
         | Some r -> print_endline (result_s r))
    | _ -> print_endline "?bad-case") Sys.argv.(1)
