open C16_model
open Codec

let rec pos_of_int i = if i = 1 then XH else if i land 1 = 0 then XO (pos_of_int (i lsr 1)) else XI (pos_of_int (i lsr 1))
let n_of_int i = if i = 0 then N0 else Npos (pos_of_int i)
let rec int_of_pos = function XH -> 1 | XO p -> 2 * int_of_pos p | XI p -> 2 * int_of_pos p + 1
let int_of_n = function N0 -> 0 | Npos p -> int_of_pos p

let str_of_field f = List.map n_of_int (utf8_decode (dec_bytes f))
let q (s : n list) = "\"" ^ enc_bytes (utf8_encode (List.map int_of_n s)) ^ "\""

let tagc = function TNone -> "" | TSq -> "'" | TDq -> "\"" | TBq -> "`" | TBs -> "\\"
let tag_of_field f = match dec_bytes f with
  | "" -> TNone | "'" -> TSq | "\"" -> TDq | "`" -> TBq | "\\" -> TBs | _ -> failwith "bad tag"
let qs s = "\"" ^ enc_bytes s ^ "\""
let tokens_str toks =
  "[" ^ String.concat "," (List.map (fun (t, w) -> "(" ^ qs (tagc t) ^ "," ^ q w ^ ")") toks) ^ "]"
let segs_str segs = "[" ^ String.concat ";" (List.map tokens_str segs) ^ "]"

let rec tokens_of_fields = function
  | [] -> []
  | [""] -> []
  | t :: w :: r -> (tag_of_field t, str_of_field w) :: tokens_of_fields r
  | _ -> failwith "odd token fields"

let xres f = function XOk a -> f a | XPanic -> "PANIC" | XFuel -> "FUEL"

let () =
  iter_lines (fun l ->
    match split_tab l with
    | ["tok"; f] -> print_endline (tokens_str (parse_line (str_of_field f)))
    | ["rt"; f] -> let s = str_of_field f in
        print_endline ("T=" ^ tokens_str (parse_line s) ^ " R=" ^ tokens_str (parse_line (rerender s)) ^ " L=" ^ q (rerender s))
    | ["rer"; f] -> print_endline (q (rerender (str_of_field f)))
    | "xa" :: f :: args ->
        print_endline (xres q (expand_args (str_of_field f) (List.map str_of_field args)))
    | "xone" :: f :: args ->
        print_endline (xres q (expand_args_for_single_token (str_of_field f) (List.map str_of_field args)))
    | ["fold"; f] -> print_endline (q (fold_lines (str_of_field f)))
    | ["foldfix"; f] -> print_endline (q (fold_lines_fixed (str_of_field f)))
    | ["nocont"; f] -> print_endline (if no_cont (str_of_field f) then "1" else "0")
    | ["isargs"; f] -> print_endline (if is_args_in_token (str_of_field f) then "1" else "0")
    | ["nopos"; f] -> print_endline (if no_positional (str_of_field f) then "1" else "0")
    | ["wrap"; t; f] -> print_endline (q (wrap_sep_string (tag_of_field t) (str_of_field f)))
    | "t2l" :: fs -> print_endline (q (tokens_to_line (tokens_of_fields fs)))
    (* the law: segments+tokens of the line as written vs after the script path's pass *)
    | "law" :: f :: args ->
        let s = str_of_field f in
        (match expand_args s (List.map str_of_field args) with
         | XOk r -> print_endline ("c=" ^ (if is_complete s then "1" else "0") ^ " p=" ^ (if no_positional s then "0" else "1") ^
                                   " D=" ^ segs_str (seg_tokens s) ^ " S=" ^ segs_str (seg_tokens r))
         | XPanic -> print_endline "PANIC" | XFuel -> print_endline "FUEL")
    | _ -> print_endline "?bad-case") Sys.argv.(1)
