(* C07 driver around the extracted Term model.
   file mode:  drv <file>   one session per line: TAB-separated actions; prints the states after
                            every action, joined by " | "
   online:     drv -i       one action per line on stdin ("reset" starts a new session); prints the
                            state after it and flushes
   actions:  L:<bg>:<pid,...>   F:<arg|->:<pick>   G:<arg|->:<pick>
             J  E  B  Z  C   X:<pid>:<code>   S:<pid>:<sig>
             N:<cmd>;<cmd>;..   a line of commands, cmd = L/<bg>/<pid,...> | F/<arg|->/<pick> | G/<arg|->/<pick> | J | B
   shell pgid = 1, has_terminal = isatty = true *)
open C07_model

let rec pos_of_int i = if i = 1 then XH else if i land 1 = 0 then XO (pos_of_int (i lsr 1)) else XI (pos_of_int (i lsr 1))
let rec int_of_pos = function XH -> 1 | XO p -> 2 * int_of_pos p | XI p -> 2 * int_of_pos p + 1
let z_of_int i = if i = 0 then Z0 else if i > 0 then Zpos (pos_of_int i) else Zneg (pos_of_int (-i))
let int_of_z = function Z0 -> 0 | Zpos p -> int_of_pos p | Zneg p -> - (int_of_pos p)
let rec int_of_nat = function O -> 0 | S n -> 1 + int_of_nat n
let zi s = z_of_int (int_of_string s)
let iz z = string_of_int (int_of_z z)
let zs l = String.concat "," (List.map iz l)
let ints_of s = if s = "" then [] else List.map zi (String.split_on_char ',' s)
let bits_of s = if s = "" then [] else List.map (fun x -> x = "1") (String.split_on_char ',' s)
let arg_of s = if s = "-" then None else Some (zi s)

let cmd_of f =
  match String.split_on_char '/' f with
  | ["L"; bg; ps] -> CLaunch (ints_of ps, bg = "1")
  | ["F"; a; p] -> CFg (arg_of a, zi p)
  | ["G"; a; p] -> CBg (arg_of a, zi p)
  | ["J"] -> CJobs | ["B"] -> CBuiltin
  | _ -> failwith ("bad command " ^ f)

let action_of f =
  match String.split_on_char ':' f with
  | ["N"; cs] -> ALine (if cs = "" then [] else List.map cmd_of (String.split_on_char ';' cs))
  | ["L"; bg; ps] -> ALaunch (ints_of ps, bg = "1")
  | ["F"; a; p] -> AFg (arg_of a, zi p)
  | ["G"; a; p] -> ABg (arg_of a, zi p)
  | ["J"] -> AJobs | ["E"] -> AEmpty | ["B"] -> ABuiltin | ["Z"] -> ACtrlZ | ["C"] -> ACtrlC
  | ["X"; p; c] -> EExit (zi p, zi c)
  | ["S"; p; s] -> ESig (zi p, zi s)
  | _ -> failwith ("bad action " ^ f)

let jst_str = function Running -> "Running" | Stopped -> "Stopped"
let job_str j =
  Printf.sprintf "%s:%s:[%s]:[%s]:%s:%s" (iz j.jid) (iz j.jgid) (zs j.jpids) (zs j.jstopped)
    (jst_str j.jst) (if j.jbg then "bg" else "fg")
let pst_str = function PRun -> "R" | PStop -> "T" | PZomb (_, _) -> "Z" | PGone -> "G"
let proc_str p = Printf.sprintf "%s/%s/%s/%s" (iz p.ppid) (iz p.ppgid) (pst_str p.pst) (if p.pblk then "b" else "u")
let out_str = function
  | ODone (i, g, r) -> Printf.sprintf "done:%s:%s:%s" (iz i) (iz g) (iz r)
  | OStopped (i, g) -> Printf.sprintf "stopped:%s:%s" (iz i) (iz g)
  | OBgLaunch (i, g) -> Printf.sprintf "bglaunch:%s:%s" (iz i) (iz g)
  | OFgCmd i -> "fgcmd:" ^ iz i
  | OBgCmd i -> "bgcmd:" ^ iz i
  | OAlreadyBg i -> "alreadybg:" ^ iz i
  | ONoJob -> "nojob"
  | ONoSuch -> "nosuch"
  | OJobLine (i, g, s, a) -> Printf.sprintf "line:%s:%s:%s:%s" (iz i) (iz g) (jst_str s) (if a then "1" else "0")
let mode_str = function
  | AtPrompt -> "P"
  | Between _ -> "B"
  | Waiting (g, _, w, v, _) ->
      Printf.sprintf "W:%s:[%s]:%s" (iz g) (zs w) (match v with VFg -> "fg" | VLaunch true -> "vl1" | VLaunch false -> "vl0")
let kvs l = String.concat "," (List.map (fun (a, b) -> iz a ^ "=" ^ iz b) l)
let st_str (s : st) =
  Printf.sprintf "m=%s o=%s k=%s p=%s t=%s out=%s maps=%s/%s/%s/%s" (mode_str s.md) (iz s.owner) (if s.smask then "1" else "0")
    (String.concat "," (List.map proc_str s.k.procs))
    (String.concat ";" (List.map job_str s.k.shl.tab))
    (String.concat ";" (List.map out_str s.k.outs))
    (kvs s.k.shl.mp.m_reap) (zs s.k.shl.mp.m_stop) (zs s.k.shl.mp.m_cont) (kvs s.k.shl.mp.m_kill)

let c0 = { c_sh = z_of_int 1; c_hasterm = true; c_isatty = true }

let () =
  if Array.length Sys.argv > 1 && Sys.argv.(1) = "-i" then begin
    let s = ref (init c0) in
    try
      while true do
        let l = input_line stdin in
        if l = "reset" then begin s := init c0; print_endline "ok" end
        else begin
          (try s := step c0 !s (action_of l); print_endline (st_str !s)
           with Failure m -> print_endline ("ERROR " ^ m))
        end;
        flush stdout
      done
    with End_of_file -> ()
  end else begin
    let ic = open_in Sys.argv.(1) in
    (try
      while true do
        let l = input_line ic in
        let fs = if l = "" then [] else String.split_on_char '\t' l in
        let acts = List.map action_of fs in
        let tr = trace c0 (init c0) acts in
        print_endline (String.concat " | " (List.map st_str tr))
      done
    with End_of_file -> ());
    close_in ic
  end
