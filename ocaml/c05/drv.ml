open C05_model
open Codec

let rec pos_of_int i = if i = 1 then XH else if i land 1 = 0 then XO (pos_of_int (i lsr 1)) else XI (pos_of_int (i lsr 1))
let n_of_int i = if i = 0 then N0 else Npos (pos_of_int i)
let rec int_of_pos = function XH -> 1 | XO p -> 2 * int_of_pos p | XI p -> 2 * int_of_pos p + 1
let int_of_n = function N0 -> 0 | Npos p -> int_of_pos p
let rec nat_of_int i = if i <= 0 then O else S (nat_of_int (i - 1))
let rec int_of_nat = function O -> 0 | S n -> 1 + int_of_nat n

let str_of_field f = List.map n_of_int (utf8_decode (dec_bytes f))
let q (s : n list) = "\"" ^ enc_bytes (utf8_encode (List.map int_of_n s)) ^ "\""

let tagc = function TNone -> "" | TSq -> "'" | TDq -> "\"" | TBq -> "`" | TBs -> "\\"
let tag_of_field f = match dec_bytes f with
  | "" -> TNone | "'" -> TSq | "\"" -> TDq | "`" -> TBq | "\\" -> TBs | _ -> failwith "bad tag"
let qs s = "\"" ^ enc_bytes s ^ "\""
let tokens_str toks =
  "[" ^ String.concat "," (List.map (fun (t, w) -> "(" ^ qs (tagc t) ^ "," ^ q w ^ ")") toks) ^ "]"

let rec tokens_of_fields = function
  | [] -> []
  | [""] -> []
  | t :: w :: r -> (tag_of_field t, str_of_field w) :: tokens_of_fields r
  | _ -> failwith "odd token fields"

let rerr = function
  | EBadNearAmp -> "EBadNearAmp" | EBadFd1 -> "EBadFd1" | EBadFd2 -> "EBadFd2"
  | EBadFd3 -> "EBadFd3" | ESyntax -> "ESyntax"
let redirs_str rd =
  "[" ^ String.concat "," (List.map (fun ((a, b), c) -> "(" ^ q a ^ "," ^ q b ^ "," ^ q c ^ ")") rd) ^ "]"
let cmd_str c =
  "C(tokens=" ^ tokens_str c.c_tokens ^ ",redirs=" ^ redirs_str c.c_redirs ^ ",from=" ^
  (match c.c_from with None -> "None" | Some (t, v) -> "(" ^ q t ^ "," ^ q v ^ ")") ^ ")"
let perr = function PRedir e -> "E(" ^ rerr e ^ ")" | PFuel -> "OUT-OF-FUEL" | PEmpty -> "E(EEmpty)"

let envs_str envs =
  let tbl = Hashtbl.create 8 in
  List.iter (fun (k, v) -> Hashtbl.replace tbl (utf8_encode (List.map int_of_n k)) v) envs;
  let ks = List.sort compare (Hashtbl.fold (fun k _ acc -> k :: acc) tbl []) in
  "[" ^ String.concat "," (List.map (fun k -> qs k ^ "=" ^ q (Hashtbl.find tbl k)) ks) ^ "]"

let plan_str cl =
  "P(bg=" ^ (if cl.cl_bg then "1" else "0") ^ ",envs=" ^ envs_str cl.cl_envs ^
  ",cmds=[" ^ String.concat "," (List.map cmd_str cl.cl_cmds) ^ "])"

let fw_str = function
  | FwSkip -> "Skip" | FwCalc -> "Calc" | FwPanicShell -> "PanicShell"
  | FwRun l -> "Run[" ^ String.concat "," (List.map (fun n -> string_of_int (int_of_nat n)) l) ^ "]"

let ranges_str rs =
  "R[" ^ String.concat "," (List.map (fun (a, b) -> "(" ^ string_of_int (int_of_nat a) ^ "," ^ string_of_int (int_of_nat b) ^ ")") rs) ^ "]"

let is_op s = (s = [n_of_int 59]) || (s = [n_of_int 38; n_of_int 38]) || (s = [n_of_int 124; n_of_int 124])

let cls_str = function FCalcDeep -> "calc-deep"

let () =
  iter_lines (fun l ->
    match split_tab l with
    | "front" :: f :: _ ->
        let s = str_of_field f in
        let segs = line_to_cmds s in
        let b = Buffer.create 64 in
        Buffer.add_string b ("segs=[" ^ String.concat "," (List.map q segs) ^ "]");
        List.iter (fun seg ->
          if not (is_op seg) then
            Buffer.add_string b ("\tS tok=" ^ tokens_str (parse_line seg) ^ " arith=" ^
                                 (if is_arithmetic seg then "1" else "0"))) segs;
        print_endline (Buffer.contents b)
    | "back" :: a :: fs ->
        (match plan_and_lookup (a = "1") (tokens_of_fields fs) with
         | SErr e -> print_endline ("plan=" ^ perr e ^ " fw=-")
         | SPlan (cl, f) -> print_endline ("plan=" ^ plan_str cl ^ " fw=" ^ fw_str f))
    | "alias" :: f :: fs ->
        let rec pairs = function k :: v :: r -> (str_of_field k, str_of_field v) :: pairs r | _ -> [] in
        (match expand_alias_sites parse_line (pairs fs) (parse_line (str_of_field f)) with
         | Ok toks -> print_endline (tokens_str toks)
         | Panic _ -> print_endline "PANIC")
    | "redir" :: fs ->
        (match tokens_to_redirections (tokens_of_fields fs) with
         | Inl (tk, rd) -> print_endline ("R(tokens=" ^ tokens_str tk ^ ",redirs=" ^ redirs_str rd ^ ")")
         | Inr e -> print_endline ("E(" ^ rerr e ^ ")"))
    | "fromtok" :: fs ->
        (match from_tokens (tokens_of_fields fs) with
         | Inl c -> print_endline (cmd_str c)
         | Inr e -> print_endline (perr e))
    | ["hl"; f] ->
        (match highlight (str_of_field f) with
         | Ok rs -> print_endline (ranges_str rs)
         | Panic _ -> print_endline "PANIC")
    | ["hlr"; st; tg; w; f] ->
        (match find_token_range (str_of_field f) (nat_of_int (int_of_string st)) (tag_of_field tg, str_of_field w) with
         | Ok None -> print_endline "None"
         | Ok (Some (a, b)) -> print_endline ("(" ^ string_of_int (int_of_nat a) ^ "," ^ string_of_int (int_of_nat b) ^ ")")
         | Panic _ -> print_endline "PANIC")
    | ["ws"; f] -> print_endline (string_of_int (int_of_nat (escaped_word_start (str_of_field f))))
    | ["misc"; f] -> print_endline ("arith=" ^ (if is_arithmetic (str_of_field f) then "1" else "0"))
    | ["cls"; f] -> print_endline (String.concat "," (List.map cls_str (known_foreign (str_of_field f))))
    | _ -> print_endline "?bad-case") Sys.argv.(1)
