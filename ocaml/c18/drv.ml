open C18_model
open Codec

let rec pos_of_int i = if i = 1 then XH else if i land 1 = 0 then XO (pos_of_int (i lsr 1)) else XI (pos_of_int (i lsr 1))
let n_of_int i = if i = 0 then N0 else Npos (pos_of_int i)
let rec int_of_pos = function XH -> 1 | XO p -> 2 * int_of_pos p | XI p -> 2 * int_of_pos p + 1
let int_of_n = function N0 -> 0 | Npos p -> int_of_pos p
let z_of_int i = if i = 0 then Z0 else if i > 0 then Zpos (pos_of_int i) else Zneg (pos_of_int (-i))
let int_of_z = function Z0 -> 0 | Zpos p -> int_of_pos p | Zneg p -> - (int_of_pos p)

let str_of_bytes b = List.map n_of_int (utf8_decode b)
let bytes_of_str (s : n list) = utf8_encode (List.map int_of_n s)
let str_of_field f = str_of_bytes (dec_bytes f)
let e (s : n list) = enc_bytes (bytes_of_str s)

let table = str_of_bytes "cicada_history"
let us = '\x1f'   (* between sub-fields of an op / of an output record *)
let rs = "\x1e"   (* between rows *)
let gs = "\x1d"   (* between the values of a row *)
let usS = String.make 1 us

let show_row (r : row) =
  String.concat gs [string_of_int (int_of_n r.r_id); e r.r_inp; string_of_int (int_of_z r.r_tsb); e r.r_session; e r.r_info]
let show_rows rows = String.concat rs (List.map show_row rows)

let show_value = function VStr s -> "S" ^ e s | VNum s -> "N" ^ e s

let run_scenario (ops : string list) : string =
  let tbl = ref [] in
  let outs = List.map (fun opf ->
    let f = List.map str_of_bytes (String.split_on_char us (dec_bytes opf)) in
    match f with
    | [k; line; status; tsb; tse; key; session; dir] when bytes_of_str k = "A" ->
        let (sql, params) = insert_stmt table line status tsb tse session dir in
        let want = intended_row line status tsb tse session dir in
        let verdict =
          match insert_rows table (sql, params) with
          | None -> "none"
          | Some rows when rows = [want] ->
              (match want with
               | VStr inp :: _ :: _ :: _ :: VStr se :: VStr info :: [] ->
                   tbl := db_insert !tbl inp (z_of_int (int_of_string (bytes_of_str key))) se info
               | _ -> ());
              "intended"
          | Some rows -> "other" in
        String.concat usS ["A"; e sql; String.concat rs (List.map show_value params); verdict; show_rows !tbl]
    | [k; n] when bytes_of_str k = "D" ->
        let sql = delete_sql table n in
        tbl := db_delete !tbl (n_of_int (int_of_string (bytes_of_str n)));
        String.concat usS ["D"; e sql; show_rows !tbl]
    | [k; pattern; fs; fa; fp; limit; session; dir] when bytes_of_str k = "L" ->
        let b x = bytes_of_str x = "1" in
        let o = { o_session = b fs; o_asc = b fa; o_pwd = b fp; o_limit = z_of_int (int_of_string (bytes_of_str limit)) } in
        let (sql, params) = select_stmt table pattern session dir o limit in
        let rows = db_list !tbl pattern session dir o in
        String.concat usS ["L"; e sql; String.concat rs (List.map e params); show_rows rows]
    | k :: _ when bytes_of_str k = "P" -> "P"
    | _ -> "?bad-op") ops in
  String.concat "\t" outs

(* the tokenizer handed to extend_bangbang: the L3 lines holding !! are plain blank-separated
   words, for which parse_line is the blank splitter (untagged tokens) *)
let blank_tokens (s : n list) =
  let words = List.filter (fun w -> w <> "") (String.split_on_char ' ' (bytes_of_str s)) in
  List.map (fun w -> (TNone, str_of_bytes w)) words
let bang prev t = extend_bangbang blank_tokens prev t

let () =
  iter_lines (fun l ->
    match split_tab l with
    | "scn" :: ops -> print_endline (run_scenario ops)
    | ["like"; p; t] ->
        print_endline (if like (str_of_field p) (str_of_field t) then "1" else "0")
    | "sess" :: typed ->
        let r = session_run bang [] (List.map str_of_field typed) in
        print_endline (String.concat "\t" (List.map e r))
    | "procs" :: ps ->
        let procs = List.map (fun f ->
          match List.map str_of_bytes (String.split_on_char us (dec_bytes f)) with
          | k :: rest when bytes_of_str k = "I" -> Interactive rest
          | [k; line] when bytes_of_str k = "A" -> AddCmd line
          | _ -> failwith "bad proc") ps in
        print_endline (String.concat "\t" (List.map e (db_procs bang [] procs)))
    | _ -> print_endline "?bad-case") Sys.argv.(1)
