open C20_model
open Codec

let rec pos_of_int i = if i = 1 then XH else if i land 1 = 0 then XO (pos_of_int (i lsr 1)) else XI (pos_of_int (i lsr 1))
let n_of_int i = if i = 0 then N0 else Npos (pos_of_int i)
let rec int_of_pos = function XH -> 1 | XO p -> 2 * int_of_pos p | XI p -> 2 * int_of_pos p + 1
let int_of_n = function N0 -> 0 | Npos p -> int_of_pos p

let str_of_bytes b = List.map n_of_int (utf8_decode b)
let str_of_field f = str_of_bytes (dec_bytes f)
let bytes_of_str s = utf8_encode (List.map int_of_n s)
let q (s : n list) = "\"" ^ enc_bytes (bytes_of_str s) ^ "\""
let qs s = "\"" ^ enc_bytes s ^ "\""

let tagc = function TNone -> "" | TSq -> "'" | TDq -> "\"" | TBq -> "`" | TBs -> "\\"
let tag_of_field f = match dec_bytes f with
  | "" -> TNone | "'" -> TSq | "\"" -> TDq | "`" -> TBq | "\\" -> TBs | _ -> failwith "bad tag"
let tokens_str toks =
  "[" ^ String.concat "," (List.map (fun (t, w) -> "(" ^ qs (tagc t) ^ "," ^ q w ^ ")") toks) ^ "]"
let qlist l = "[" ^ String.concat "," (List.map q l) ^ "]"

(* listing field: dir US (d|f)name US (d|f)name ... *)
let parse_listing f =
  match String.split_on_char '\x1f' (dec_bytes f) with
  | [] -> failwith "empty listing"
  | d :: es ->
    (d, List.map (fun e -> (str_of_bytes (String.sub e 1 (String.length e - 1)),
                            (match e.[0] with 'd' -> EDir | 'f' -> EFile | 'D' -> ELinkDir | 'F' -> ELinkFile
                                            | 'x' -> ELinkDangling | _ -> failwith "bad entry kind"))) es)

let mk_fs fields =
  let ls = List.map parse_listing fields in
  fun (d : n list) -> List.assoc_opt (bytes_of_str d) ls

let mk_env f =
  let v = dec_bytes f in
  fun (name : n list) -> if bytes_of_str name = "CV" && v <> "" then Some (str_of_bytes v) else None

let comp_str c =
  "(" ^ q c.cp_text ^ "," ^ (match c.cp_display with None -> "None" | Some d -> q d) ^ "," ^
  (if c.cp_dir then "d" else "f") ^ ")"
let comps_str l = "[" ^ String.concat "," (List.map comp_str l) ^ "]"

let () =
  iter_lines (fun l ->
    match split_tab l with
    | ["esc"; f] -> print_endline (q (escape_path (str_of_field f)))
    | ["wrap"; t; f] -> print_endline (q (wrap_sep_string (tag_of_field t) (str_of_field f)))
    | ["ews"; f] ->
        let s = str_of_field f in
        let n = escaped_word_start s in
        print_endline (string_of_int (int_of_n n) ^ " " ^ (match split_bytes n s with Some _ -> "B" | None -> "NB"))
    | ["neh"; f] -> print_endline (if needs_expand_home (str_of_field f) then "1" else "0")
    | ["sp"; f] -> let (d, x) = split_pathname (str_of_field f) in print_endline ("(" ^ q d ^ "," ^ q x ^ ")")
    | "cp" :: _cwd :: w :: fd :: ev :: ls ->
        (match complete_path (mk_fs ls) (mk_env ev) (str_of_field w) (fd = "1") with
         | CUnmodelled -> print_endline "UNMODELLED"
         | COk cs -> print_endline (comps_str cs))
    | "tab" :: line :: ev :: ls ->
        (match tab_line (mk_fs ls) (mk_env ev) (fun _ -> false) (str_of_field line) with
         | TPanic -> print_endline "PANIC"
         | TUnmodelled -> print_endline "UNMODELLED"
         | TOther -> print_endline "OTHER"
         | TSame -> print_endline "SAME"
         | TOne (nl, c) -> print_endline ("ONE " ^ q nl ^ " " ^ comp_str c)
         | TMany (nl, cs) -> print_endline ("MANY " ^ q nl ^ " " ^ comps_str cs))
    | ["disp"; f] ->
        print_endline (match dispatch false (str_of_field f) with
          | DDots -> "dots" | DSsh -> "ssh" | DMake -> "make" | DBin -> "bin" | DEnv -> "env" | DCd -> "cd" | DPath -> "path")
    | ["rt"; f] ->
        let line = str_of_field f in
        let segs = line_to_cmds line in
        (match segs with
         | [seg] ->
             let toks = parse_line seg in
             let lit = List.for_all literal_token (match toks with _ :: r -> r | [] -> []) in
             let argv = (match run_line (fun x -> x) line with Some a -> "A" ^ qlist a | None -> "N") in
             print_endline ("segs=1 toks=" ^ tokens_str toks ^ " lit=" ^ (if lit then "1" else "0") ^ " argv=" ^ argv)
         | _ -> print_endline ("segs=" ^ string_of_int (List.length segs)))
    | _ -> print_endline "?bad-case") Sys.argv.(1)
