open C14_model
open Codec

let rec pos_of_int i = if i = 1 then XH else if i land 1 = 0 then XO (pos_of_int (i lsr 1)) else XI (pos_of_int (i lsr 1))
let n_of_int i = if i = 0 then N0 else Npos (pos_of_int i)
let rec int_of_pos = function XH -> 1 | XO p -> 2 * int_of_pos p | XI p -> 2 * int_of_pos p + 1
let int_of_n = function N0 -> 0 | Npos p -> int_of_pos p
let z_of_int i = if i = 0 then Z0 else if i > 0 then Zpos (pos_of_int i) else Zneg (pos_of_int (-i))
let int_of_z = function Z0 -> 0 | Zpos p -> int_of_pos p | Zneg p -> - (int_of_pos p)
let rec int_of_nat = function O -> 0 | S k -> 1 + int_of_nat k
let rec nat_of_int i = if i <= 0 then O else S (nat_of_int (i - 1))

let str_of_string b = List.map n_of_int (utf8_decode b)
let string_of_str (s : n list) = utf8_encode (List.map int_of_n s)
let str_of_field f = str_of_string (dec_bytes f)
let q (s : n list) = "\"" ^ enc_bytes (string_of_str s) ^ "\""

let rule_name r =
  try string_of_str (List.assoc r l_names) with Not_found -> "R" ^ string_of_int (int_of_n r)

let rec show_tree (Node (r, s, e, kids)) =
  "(" ^ rule_name r ^ " " ^ string_of_int (int_of_nat s) ^ " " ^ string_of_int (int_of_nat e)
  ^ String.concat "" (List.map (fun k -> " " ^ show_tree k) kids) ^ ")"

let rec show_ttree (TNode (r, t, kids)) =
  "(" ^ rule_name r ^ " " ^ q t ^ String.concat "" (List.map (fun k -> " " ^ show_ttree k) kids) ^ ")"

(* ---- AST wire format (see drive/c14.py) ---- *)
exception Bad of string
let parse_ast (s : string) : block =
  let toks = ref (List.filter (fun t -> t <> "") (String.split_on_char ' ' s)) in
  let next () = match !toks with t :: r -> toks := r; t | [] -> raise (Bad "eof") in
  let peek () = match !toks with t :: _ -> t | [] -> raise (Bad "eof") in
  let str () = let t = next () in
    if String.length t = 0 || t.[0] <> '=' then raise (Bad ("string expected: " ^ t));
    str_of_string (dec_bytes (String.sub t 1 (String.length t - 1))) in
  let sp () = match next () with "0" -> false | "1" -> true | t -> raise (Bad ("sp: " ^ t)) in
  let rec block () =
    if next () <> "[" then raise (Bad "[ expected");
    let rec go () = if peek () = "]" then (ignore (next ()); BNil) else let s = stmt () in BCons (s, go ()) in
    go ()
  and stmt () =
    match next () with
    | "c" -> let i = str () in let l = str () in SCmd (i, l)
    | "k" -> SBlank (str ())
    | "b" -> SBreak (str ())
    | "n" -> SCont (str ())
    | "i" -> let i = str () in let p = sp () in let c = str () in let b = block () in let a = arms () in SIf (i, p, c, b, a)
    | "f" -> let i = str () in let p = sp () in let v = str () in let ws = str () in let b = block () in SFor (i, p, v, ws, b)
    | "w" -> let i = str () in let p = sp () in let c = str () in let b = block () in SWhile (i, p, c, b)
    | t -> raise (Bad ("stmt: " ^ t))
  and arms () =
    match next () with
    | "x" -> ANone (str ())
    | "e" -> let i = str () in let b = block () in let j = str () in AElse (i, b, j)
    | "l" -> let i = str () in let p = sp () in let c = str () in let b = block () in let a = arms () in AElif (i, p, c, b, a)
    | t -> raise (Bad ("arms: " ^ t))
  in
  block ()

(* ---- the oracle for generated scripts ----
   commands:   <dir>/hp @x<status> <marker> [words]      -> status, logged
               <dir>/seq <counter> <s0,s1,...>            -> k-th status (last one repeated), logged
   a word $name is replaced by the variable's value.  World = log, counters, variables. *)
type world = { log : string list; ctr : (string * int) list; vars : (string * string) list }
let w0 = { log = []; ctr = []; vars = [] }

let ends_with s suf =
  let n = String.length s and m = String.length suf in n >= m && String.sub s (n - m) m = suf

let words_of w (line : n list) =
  let ws = List.filter (fun x -> x <> "") (String.split_on_char ' ' (string_of_str line)) in
  List.map (fun x -> if String.length x > 1 && x.[0] = '$' then
                        (try List.assoc (String.sub x 1 (String.length x - 1)) w.vars with Not_found -> "") else x) ws

(* one pipeline *)
let run_pipe (w : world) (line : n list) : world * z =
  match words_of w line with
  | prog :: rest when ends_with prog "/hp" ->
      let st = match rest with
        | ctl :: _ when String.length ctl > 2 && String.sub ctl 0 2 = "@x" ->
            (try int_of_string (String.sub ctl 2 (String.length ctl - 2)) with _ -> 0)
        | _ -> 0 in
      ({ w with log = ("hp:" ^ String.concat "," rest) :: w.log }, z_of_int st)
  | prog :: file :: lst :: _ when ends_with prog "/seq" ->
      let k = try List.assoc file w.ctr with Not_found -> 0 in
      let sts = List.map (fun x -> try int_of_string x with _ -> 2) (String.split_on_char ',' lst) in
      let st = List.nth sts (min k (List.length sts - 1)) in
      ({ w with log = ("seq:" ^ file ^ "," ^ lst) :: w.log; ctr = (file, k + 1) :: List.remove_assoc file w.ctr }, z_of_int st)
  | _ -> (w, z_of_int 0)   (* any other command (echo, true ...): not traced, succeeds *)

(* one script line = an and-or list of pipelines: the extracted transcription of
   execute::run_command_line (Model/ListExec.v) over run_pipe; the result vector is the list of
   the statuses of the pipelines that were executed *)
let run_line (w : world) (line : n list) : world * z list = run_line_of run_pipe w line

let for_words (w : world) (text : n list) : world * n list list =
  (w, List.map str_of_string (List.filter (fun x -> x <> "") (words_of w text)))

let set_var (w : world) (k : n list) (v : n list) : world =
  let k = string_of_str k in { w with vars = (k, string_of_str v) :: List.remove_assoc k w.vars }

let show_outcome = function
  | Done (w, crs, c, b) ->
      "log=[" ^ String.concat ";" (List.rev w.log) ^ "] crs=[" ^ String.concat "," (List.map (fun z -> string_of_int (int_of_z z)) crs)
      ^ "] flags=" ^ (if c then "c" else "-") ^ (if b then "b" else "-")
  | Panic -> "PANIC"
  | OutOfFuel -> "OUT-OF-FUEL"

let () =
  iter_lines (fun l ->
    try
      match split_tab l with
      | ["parse"; f] ->
          let t = str_of_field f in
          (match parse_from l_grammar l_EXP t with
           | POk (p, _, kids) -> print_endline ("OK " ^ string_of_int (int_of_nat p) ^ " " ^ String.concat " " (List.map show_tree kids))
           | PFail -> print_endline "ERR"
           | PFuel -> print_endline "OUT-OF-FUEL")
      | ["ptree"; f] ->
          let t = str_of_field f in
          (match parse_from l_grammar l_EXP t with
           | POk (_, _, kids) -> print_endline ("OK " ^ String.concat " " (List.map (fun k -> show_ttree (annotate t k)) kids))
           | PFail -> print_endline "ERR"
           | PFuel -> print_endline "OUT-OF-FUEL")
      | ["ast"; f] ->
          let b = parse_ast (dec_bytes f) in
          print_endline ("wf=" ^ (if wf_block b && wfp_block b then "1" else "0") ^ " text=" ^ q (render_block b) ^ " tree=" ^ show_ttree (tree_of_script b))
      | ["run"; f; nf] ->
          let t = str_of_field f in
          (match run_lines run_line for_words set_var (fun _ -> false) (nat_of_int (int_of_string nf)) t w0 with
           | None -> print_endline "SYNTAX-ERROR"
           | Some o -> print_endline (show_outcome o))
      | ["sem"; f; nf] ->
          let b = parse_ast (dec_bytes f) in
          print_endline (show_outcome (sem_block run_line for_words set_var false (nat_of_int (int_of_string nf)) b false w0))
      | ["seme"; f; nf] ->
          (* the reference semantics with set -e in effect (C15_sete) *)
          let b = parse_ast (dec_bytes f) in
          print_endline (show_outcome (sem_block run_line for_words set_var true (nat_of_int (int_of_string nf)) b false w0))
      | ["rune"; f; nf] ->
          let t = str_of_field f in
          (match run_lines run_line for_words set_var (fun _ -> true) (nat_of_int (int_of_string nf)) t w0 with
           | None -> print_endline "SYNTAX-ERROR"
           | Some o -> print_endline (show_outcome o))
      | _ -> print_endline "?bad-case"
    with Bad m -> print_endline ("?bad-ast " ^ m)) Sys.argv.(1)
