(* Driver around the extracted descriptor model (engine FDS, shared by C02/C04/C08).
   case:  run <variant: 7 flags dupclose,bcap,capclose,capfail,bunop,bfold,capfirst e.g. 1111100 = the code as it is> <capture 0|1> <failing pipe() calls: - or 0,2> <unopenable paths: - or 3,4>
              <initial table: 0,1,2,5x>  <stages: K:FROM:REDIRS:PRINTS|...>
   K = E(xternal) B(uiltin) N(ot found); FROM = - | h | <N ; REDIRS = - or comma list of
   1tN 1aN 2tN 2aN (trunc/append to path N) 2&1 1&2 1&1 2&2 ; PRINTS = string of o / e (O / E: empty text) or - *)
open Fds_model
open Codec

let rec nat_of_int i = if i <= 0 then O else S (nat_of_int (i - 1))
let rec int_of_nat = function O -> 0 | S n -> 1 + int_of_nat n

let split c s = if s = "-" || s = "" then [] else String.split_on_char c s
let ints s = List.map int_of_string (split ',' s)

let parse_redir s : redir =
  let fd = if s.[0] = '1' then F1 else F2 in
  match s.[1] with
  | '&' -> { r_fd = fd; r_app = false; r_to = (if s.[2] = '1' then TAmp1 else TAmp2) }
  | c -> { r_fd = fd; r_app = (c = 'a');
           r_to = TFile (nat_of_int (int_of_string (String.sub s 2 (String.length s - 2)))) }

let parse_stage s : stage =
  match String.split_on_char ':' s with
  | [k; f; r; pr] ->
    { s_kind = (match k with "E" -> KExt | "B" -> KBuiltin | _ -> KNotFound);
      s_from = (if f = "-" then FNone else if f = "h" then FHere
                else FFile (nat_of_int (int_of_string (String.sub f 1 (String.length f - 1)))));
      s_redirs = List.map parse_redir (split ',' r);
      (* o / e: print_stdout / print_stderr with a text; O / E: with an EMPTY text *)
      s_prints = (if pr = "-" then [] else List.init (String.length pr) (fun i ->
                    ((pr.[i] = 'o' || pr.[i] = 'O'), (pr.[i] = 'O' || pr.[i] = 'E')))) }
  | _ -> failwith "bad stage"

let parse_table s : table =
  let items = List.map (fun x ->
    let cx = String.length x > 0 && x.[String.length x - 1] = 'x' in
    let n = int_of_string (if cx then String.sub x 0 (String.length x - 1) else x) in (n, cx)) (split ',' s) in
  let mx = List.fold_left (fun a (n, _) -> max a n) (-1) items in
  List.init (mx + 1) (fun i ->
    match List.assoc_opt i items with
    | Some cx -> Some (OInh (nat_of_int i), cx)
    | None -> None)

let pid_s = function
  | PStage i -> "s" ^ string_of_int (int_of_nat i) | PCapOut -> "co" | PCapErr -> "ce"
  | PHere i -> "h" ^ string_of_int (int_of_nat i)
let mode_s = function MRead -> "r" | MTrunc -> "t" | MAppend -> "a"
let obj_s = function
  | OInh i -> "inh" ^ string_of_int (int_of_nat i)
  | OPipeR p -> "pr." ^ pid_s p | OPipeW p -> "pw." ^ pid_s p
  | OFile (p, m) -> "f" ^ string_of_int (int_of_nat p) ^ "." ^ mode_s m
let table_s (t : table) =
  let items = List.mapi (fun i e -> match e with
    | Some (o, cx) -> Some (string_of_int i ^ "=" ^ obj_s o ^ (if cx then "+x" else ""))
    | None -> None) t in
  String.concat "," (List.filter_map (fun x -> x) items)
let n_s n = string_of_int (int_of_nat n)
let ev_s = function
  | EPipe (r, w) -> "pipe(" ^ n_s r ^ "," ^ n_s w ^ ")"
  | EPipeFail -> "pipefail"
  | EClose (fd, ok) -> "close(" ^ n_s fd ^ ")=" ^ (if ok then "0" else "EBADF")
  | EDup2 (s, d, ok) -> "dup2(" ^ n_s s ^ "," ^ n_s d ^ ")=" ^ (if ok then n_s d else "EBADF")
  | EDup (s, r) -> "dup(" ^ n_s s ^ ")=" ^ (match r with Some fd -> n_s fd | None -> "EBADF")
  | EOpen (p, m, r) -> "open(" ^ n_s p ^ "," ^ mode_s m ^ ")=" ^ (match r with Some fd -> n_s fd | None -> "ERR")
  | EFork i -> "fork(" ^ n_s i ^ ")"
  | EWrite fd -> "write(" ^ n_s fd ^ ")"
  | ERead fd -> "read(" ^ n_s fd ^ ")"
  | EExec -> "exec" | EExit c -> "exit(" ^ n_s c ^ ")"
let trace_s (p : proc) = String.concat " " (List.rev_map ev_s p.tr)
let out_s = function OExec -> "exec" | OExit c -> "exit" ^ n_s c
let b_s b = if b then "1" else "0"

let () =
  iter_lines (fun l ->
    match split_tab l with
    | ["run"; fx; cap; fails; unop; t0; stages] ->
      let d = dec_bytes in
      let fl = d fx in
      let fb i = String.length fl > i && fl.[i] = '1' in
      let v = { v_dupclose = fb 0; v_bcap = fb 1; v_capclose = fb 2; v_capfail = fb 3; v_bunop = fb 4; v_bfold = fb 5; v_capfirst = fb 6 } in
      let capture = d cap = "1" in
      let fails = ints (d fails) and unop = ints (d unop) in
      let sts = List.map parse_stage (String.split_on_char '|' (d stages)) in
      let t0 = parse_table (d t0) in
      let fail_at k = List.mem (int_of_nat k) fails in
      let openable p = not (List.mem (int_of_nat p) unop) in
      let r = run_pipeline v fail_at openable { p_stages = sts; p_capture = capture } { tab = t0; tr = [] } in
      let n = List.length sts in
      let kids = List.map (fun k ->
        string_of_int (int_of_nat k.k_idx) ^ ":" ^ out_s k.k_out ^ ":" ^ table_s k.k_proc.tab) r.res_kids in
      let ktr = List.map (fun k -> "kid" ^ n_s k.k_idx ^ "=[" ^ trace_s k.k_proc ^ "]") r.res_kids in
      let sinks = List.map (function Some o -> obj_s o | None -> "none") r.res_sinks in
      (* known classes and POSIX expectation per stage *)
      let obj_at fd = match lookup t0 (nat_of_int fd) with Some (o, _) -> o | None -> OInh (nat_of_int fd) in
      let per = List.mapi (fun i st ->
        let last = i + 1 = n in
        let cls = (if known_dupleak v last capture st then ["dupleak"] else [])
                  @ (if known_capredir v last capture st then ["capredir"] else [])
                  @ (if known_capdup last capture st && not v.v_capfirst then ["capdup"] else [])
                  @ (if is_single_builtin { p_stages = sts; p_capture = capture } && lookahead_leak st.s_redirs then ["lookahead"] else [])
                  @ (if List.exists out_of_scope st.s_redirs then ["oos"] else []) in
        let i0 = std_in (obj_at 0) (nat_of_int i) st in
        let o0 = std_out (obj_at 1) (nat_of_int n) capture (nat_of_int i) in
        let e0 = std_err (obj_at 2) (nat_of_int n) capture (nat_of_int i) in
        let (o1, e1) = posix_sinks st.s_redirs (o0, e0) in
        let (opens, ok) = posix_opens openable st.s_redirs in
        let opens_s = String.concat "," (List.map (fun (p, m) -> n_s p ^ "." ^ mode_s m) opens) in
        string_of_int i ^ ":" ^ String.concat "+" cls ^ ":" ^ obj_s i0 ^ "," ^ obj_s o1 ^ "," ^ obj_s e1
        ^ ":" ^ opens_s ^ ":" ^ b_s ok) sts in
      print_endline ("err=" ^ b_s r.res_error ^ " shell=" ^ table_s r.res_shell.tab
        ^ " sinks=[" ^ String.concat "," sinks ^ "] kids=[" ^ String.concat ";" kids ^ "]"
        ^ " posix=[" ^ String.concat ";" per ^ "]"
        ^ " || shell=[" ^ trace_s r.res_shell ^ "] " ^ String.concat " " ktr)
    | _ -> print_endline "?bad-case") Sys.argv.(1)
