open C06_model
open Codec

let rec pos_of_int i = if i = 1 then XH else if i land 1 = 0 then XO (pos_of_int (i lsr 1)) else XI (pos_of_int (i lsr 1))
let rec int_of_pos = function XH -> 1 | XO p -> 2 * int_of_pos p | XI p -> 2 * int_of_pos p + 1
let z_of_int i = if i = 0 then Z0 else if i > 0 then Zpos (pos_of_int i) else Zneg (pos_of_int (-i))
let int_of_z = function Z0 -> 0 | Zpos p -> int_of_pos p | Zneg p -> - (int_of_pos p)
let rec int_of_nat = function O -> 0 | S n -> 1 + int_of_nat n
let rec nat_of_int i = if i <= 0 then O else S (nat_of_int (i - 1))

let zs l = String.concat "," (List.map (fun z -> string_of_int (int_of_z z)) l)
(* HashSets are printed sorted, as the harness does *)
let zset l = String.concat "," (List.map string_of_int (List.sort compare (List.map int_of_z l)))
let kvs l = String.concat "," (List.map (fun (k, v) -> string_of_int (int_of_z k) ^ "=" ^ string_of_int (int_of_z v)) l)

let ints_of s = if s = "" then [] else List.map (fun x -> z_of_int (int_of_string x)) (String.split_on_char ',' s)

(* x<pid>.<status>  k<pid>.<sig>  s<pid>.<sig>  c<pid> *)
let ev_of s =
  let body = String.sub s 1 (String.length s - 1) in
  let two () = match String.split_on_char '.' body with
    | [a; b] -> (z_of_int (int_of_string a), z_of_int (int_of_string b))
    | _ -> failwith "bad event" in
  match s.[0] with
  | 'x' -> let (p, v) = two () in Exited (p, v)
  | 'k' -> let (p, v) = two () in Signaled (p, v)
  | 's' -> let (p, v) = two () in StoppedE (p, v)
  | 'c' -> Continued (z_of_int (int_of_string body))
  | _ -> failwith "bad event"

let evs_of s = if s = "" then [] else List.map ev_of (String.split_on_char ';' s)

let op_of f =
  match String.split_on_char ':' f with
  | ["L"; g; bg; ps] -> Launch (z_of_int (int_of_string g), ints_of ps, bg = "1")
  | ["W"; g; ps; es] -> Wait (z_of_int (int_of_string g), ints_of ps, evs_of es)
  | ["P"; es] -> Poll (evs_of es)
  | _ -> failwith ("bad op " ^ f)

let job_str j =
  Printf.sprintf "%d:%d:[%s]:[%s]:%s:%s" (int_of_z j.jid) (int_of_z j.jgid) (zs j.jpids) (zset j.jstopped)
    (match j.jst with Running -> "Running" | Stopped -> "Stopped") (if j.jbg then "bg" else "fg")

let table_str t = "[" ^ String.concat ";" (List.map job_str t) ^ "]"

let snap (r : rst) =
  let s = r.r_sh in
  Printf.sprintf "jobs=%s reap=[%s] stop=[%s] cont=[%s] kill=[%s] st=%d blk=%d left=%d"
    (table_str s.tab) (kvs s.mp.m_reap) (zset s.mp.m_stop) (zset s.mp.m_cont) (kvs s.mp.m_kill)
    (int_of_z r.r_status) (if r.r_blocked then 1 else 0) (List.length r.r_pend)

let () =
  iter_lines (fun l ->
    match split_tab l with
    | "hist" :: ops ->
        let h = List.map (fun f -> op_of (dec_bytes f)) ops in
        print_endline (String.concat " | " (List.map snap (trace init_rst h)))
    | _ -> print_endline "?bad-case") Sys.argv.(1)
