open C02w_model
open Codec

let rec pos_of_int i = if i = 1 then XH else if i land 1 = 0 then XO (pos_of_int (i lsr 1)) else XI (pos_of_int (i lsr 1))
let z_of_int i = if i = 0 then Z0 else if i > 0 then Zpos (pos_of_int i) else Zneg (pos_of_int (-i))
let rec int_of_pos = function XH -> 1 | XO p -> 2 * int_of_pos p | XI p -> 2 * int_of_pos p + 1
let int_of_z = function Z0 -> 0 | Zpos p -> int_of_pos p | Zneg p -> - (int_of_pos p)
let rec int_of_nat = function O -> 0 | S n -> 1 + int_of_nat n

(* "a,b,c" -> [a;b;c]; "" -> [] *)
let items (f : string) : string list =
  let s = dec_bytes f in
  if s = "" then [] else String.split_on_char ',' s

let pids_of_field f = List.map (fun x -> z_of_int (int_of_string x)) (items f)

(* pid:kind:val *)
let events_of_field f =
  List.map (fun it ->
    match String.split_on_char ':' it with
    | [p; k; v] -> ((z_of_int (int_of_string p), z_of_int (int_of_string k)), z_of_int (int_of_string v))
    | _ -> failwith "bad event") (items f)

let () =
  iter_lines (fun l ->
    match split_tab l with
    | ["wait"; fp; fe] ->
        let r = wait_fg_job (pids_of_field fp) (events_of_field fe) in
        Printf.printf "status=%d consumed=%d left=%d\n"
          (int_of_z r.r_status) (int_of_nat r.r_consumed) (List.length r.r_left)
    | _ -> print_endline "?bad-case") Sys.argv.(1)
