// Shared by c10.rs / c11.rs / c12.rs (included with #[path]): the protocol of
// ocaml/c1x/drv.ml on the implementation side, through the cfg(cicada_verif) hooks.
use cicada::verif::shell::{self, verif_hooks as vh, Shell};
use hx::*;

pub type Toks = Vec<(String, String)>;

fn tag_text(c: char) -> &'static str {
    match c {
        'n' => "",
        's' => "'",
        'd' => "\"",
        'b' => "`",
        'e' => "\\",
        _ => panic!("bad tag"),
    }
}

pub fn toks_of_field(f: &str) -> Toks {
    let s = dec(f);
    if s.is_empty() {
        return Vec::new();
    }
    s.split('\x1f')
        .map(|e| {
            let mut cs = e.chars();
            let t = cs.next().unwrap();
            (tag_text(t).to_string(), cs.as_str().to_string())
        })
        .collect()
}

/// Applies a world field to the process / a fresh Shell; returns the shell and the
/// list of environment names to remove afterwards.
pub struct Applied {
    pub sh: Shell,
    names: Vec<String>,
    old_home: Option<String>,
    old_dir: Option<std::path::PathBuf>,
}

pub fn apply_world(f: &str) -> Applied {
    let mut sh = Shell::new();
    let mut names = Vec::new();
    let old_home = std::env::var("HOME").ok();
    let mut old_dir = None;
    let s = dec(f);
    for e in s.split('\x1e') {
        if e.is_empty() {
            continue;
        }
        let mut cs = e.chars();
        let kind = cs.next().unwrap();
        let body = cs.as_str();
        let (k, v) = match body.find('\x1d') {
            Some(i) => (&body[..i], &body[i + 1..]),
            None => (body, ""),
        };
        match kind {
            'E' => {
                std::env::set_var(k, v);
                names.push(k.to_string());
            }
            'S' => {
                sh.envs.insert(k.to_string(), v.to_string());
            }
            'A' => {
                sh.aliases.insert(k.to_string(), v.to_string());
            }
            'Q' => sh.previous_status = v.parse().unwrap(),
            'H' => std::env::set_var("HOME", v),
            'D' => {
                old_dir = std::env::current_dir().ok();
                std::env::set_current_dir(v).expect("chdir");
            }
            _ => {} // R r G g P: facts about the outside world, real on this side
        }
    }
    Applied { sh, names, old_home, old_dir }
}

impl Drop for Applied {
    fn drop(&mut self) {
        for n in &self.names {
            std::env::remove_var(n);
        }
        match &self.old_home {
            Some(h) => std::env::set_var("HOME", h),
            None => std::env::remove_var("HOME"),
        }
        if let Some(d) = &self.old_dir {
            let _ = std::env::set_current_dir(d);
        }
    }
}

fn b2s(b: bool) -> String {
    (if b { "T" } else { "F" }).to_string()
}

fn pidpfx(s: String) -> String {
    format!("pid={}\t{}", std::process::id(), s)
}

pub fn op(f: &[&str]) -> String {
    match f[0] {
        "eit" => b2s(vh::env_in_token(&dec(f[1]))),
        "neb" => b2s(vh::need_expand_brace(&dec(f[1]))),
        "ng" => b2s(vh::needs_globbing(&dec(f[1]))),
        "sdd" => b2s(vh::should_do_dollar_command_extension(&dec(f[1]))),
        "once" => {
            let a = apply_world(f[1]);
            pidpfx(q(&vh::expand_env_once(&a.sh, &dec(f[2]))))
        }
        "env" => {
            let a = apply_world(f[1]);
            let mut t = toks_of_field(f[3]);
            shell::expand_env(&a.sh, &mut t);
            pidpfx(tokens_str(&t))
        }
        "bgi" => {
            let (o, r) = vh::brace_getitem(&dec(f[1]), f[2].parse().unwrap());
            format!("({},{})", qlist(&o), q(&r))
        }
        "bgg" => match vh::brace_getgroup(&dec(f[1]), f[2].parse().unwrap()) {
            None => "None".to_string(),
            Some((o, r)) => format!("Some({},{})", qlist(&o), q(&r)),
        },
        "eb" => {
            let mut t = toks_of_field(f[1]);
            vh::expand_brace(&mut t);
            tokens_str(&t)
        }
        "ebr" => {
            let mut t = toks_of_field(f[2]);
            vh::expand_brace_range(&mut t);
            tokens_str(&t)
        }
        "eh" => {
            let _a = apply_world(f[1]);
            let mut t = toks_of_field(f[2]);
            vh::expand_home(&mut t);
            tokens_str(&t)
        }
        "eg" => {
            let _a = apply_world(f[1]);
            let mut t = toks_of_field(f[2]);
            shell::expand_glob(&mut t);
            tokens_str(&t)
        }
        "globraw" => {
            let _a = apply_world(f[1]);
            match glob::glob(&dec(f[2])) {
                Err(_) => "ERR".to_string(),
                Ok(paths) => {
                    let v: Vec<String> = paths.filter_map(|p| p.ok()).map(|p| p.to_string_lossy().to_string()).collect();
                    qlist(&v)
                }
            }
        }
        "cs" => {
            let mut a = apply_world(f[1]);
            let mut t = toks_of_field(f[3]);
            vh::do_command_substitution(&mut a.sh, &mut t);
            tokens_str(&t)
        }
        "dx" => {
            let mut a = apply_world(f[1]);
            let mut t = toks_of_field(f[3]);
            shell::do_expansion(&mut a.sh, &mut t);
            pidpfx(tokens_str(&t))
        }
        _ => "?bad-case".to_string(),
    }
}
