#[path = "../expand_ops.rs"]
mod expand_ops;
use hx::*;

fn main() {
    main_loop(|f| expand_ops::op(f));
}
