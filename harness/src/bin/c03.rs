use cicada::verif::parsers::parser_line;
use hx::*;

fn main() {
    main_loop(|f| match f[0] {
        "l2c" => qlist(&parser_line::line_to_cmds(&dec(f[1]))),
        _ => "?bad-case".to_string(),
    });
}
