use cicada::verif::parsers::parser_line;
use cicada::verif::types::Command;
use hx::*;

fn toks_of_fields(f: &[&str]) -> Vec<(String, String)> {
    let mut v = Vec::new();
    let mut i = 0;
    while i + 1 < f.len() {
        v.push((dec(f[i]), dec(f[i + 1])));
        i += 2;
    }
    v
}

fn err_code(e: &str) -> String {
    let c = match e {
        "bad redirection syntax near &" => 1,
        "Bad file descriptor #3" => 2,
        "Bad file descriptor #1" => 3,
        "Bad file descriptor #2" => 4,
        "redirection syntax error" => 5,
        "Failed to build Regex" => 6,
        _ => return format!("ERR ?{}", enc(e)),
    };
    format!("ERR {}", c)
}

fn redirs_str(r: &[(String, String, String)]) -> String {
    let items: Vec<String> =
        r.iter().map(|(a, b, c)| format!("({},{},{})", q(a), q(b), q(c))).collect();
    format!("[{}]", items.join(","))
}

fn main() {
    main_loop(|f| match f[0] {
        "ttr" => {
            let tokens = toks_of_fields(&f[1..]);
            match parser_line::tokens_to_redirections(&tokens) {
                Ok((t, r)) => format!("OK toks={} redirs={}", tokens_str(&t), redirs_str(&r)),
                Err(e) => err_code(&e),
            }
        }
        "ft" => {
            let tokens = toks_of_fields(&f[1..]);
            match Command::from_tokens(tokens) {
                Ok(cmd) => {
                    let fr = match &cmd.redirect_from {
                        None => "none".to_string(),
                        Some((a, b)) => format!("({},{})", q(a), q(b)),
                    };
                    format!(
                        "OK toks={} redirs={} from={}",
                        tokens_str(&cmd.tokens),
                        redirs_str(&cmd.redirects_to),
                        fr
                    )
                }
                Err(e) => err_code(&e),
            }
        }
        "line" => tokens_str(&parser_line::parse_line(&dec(f[1])).tokens),
        _ => "?bad-case".to_string(),
    });
}
