//! C02 (wait part): jobc::wait_fg_job on an injected sequence of wait
//! statuses. Case: wait<TAB>pids<TAB>events, pids = comma-separated decimal
//! list, events = comma-separated pid:kind:val (kind 0 exited, 1 signaled,
//! 2 stopped, 3 continued, 9 others, 255 error with val = errno).
use cicada::verif::jobc;
use cicada::verif::jobc::verif_hooks;
use cicada::verif::shell::Shell;
use cicada::verif::types::WaitStatus;
use hx::*;

fn items(f: &str) -> Vec<String> {
    let s = dec(f);
    if s.is_empty() {
        Vec::new()
    } else {
        s.split(',').map(|x| x.to_string()).collect()
    }
}

fn event(it: &str) -> WaitStatus {
    let p: Vec<i32> = it.split(':').map(|x| x.parse::<i32>().expect("int")).collect();
    assert!(p.len() == 3, "bad event");
    let (pid, kind, val) = (p[0], p[1], p[2]);
    match kind {
        0 => WaitStatus::from_exited(pid, val),
        1 => WaitStatus::from_signaled(pid, val),
        2 => WaitStatus::from_stopped(pid, val),
        3 => WaitStatus::from_continuted(pid),
        9 => WaitStatus::from_others(),
        255 => WaitStatus::from_error(val),
        _ => panic!("bad kind"),
    }
}

fn main() {
    main_loop(|f| match f[0] {
        "wait" if f.len() == 3 => {
            let pids: Vec<i32> = items(f[1]).iter().map(|x| x.parse::<i32>().expect("int")).collect();
            let evs: Vec<WaitStatus> = items(f[2]).iter().map(|x| event(x)).collect();
            let n = evs.len();
            let gid = pids.first().copied().unwrap_or(0);
            let mut sh = Shell::new();
            verif_hooks::set_injected(Some(evs));
            let cr = jobc::wait_fg_job(&mut sh, gid, &pids);
            let left = verif_hooks::injected_left();
            verif_hooks::set_injected(None);
            format!("status={} consumed={} left={}", cr.status, n - left, left)
        }
        _ => "?bad-case".to_string(),
    });
}
