use cicada::verif::scripting::verif_hooks as h;
use hx::*;

fn main() {
    main_loop(|f| match f[0] {
        "single" => {
            let args: Vec<String> = f[2..].iter().map(|x| dec(x)).collect();
            q(&h::expand_args_for_single_token(&dec(f[1]), &args))
        }
        "isargs" => format!("{}", h::is_args_in_token(&dec(f[1]))),
        "intok" => {
            let n: usize = f[1].parse().unwrap();
            let args: Vec<String> = f[2..2 + n].iter().map(|x| dec(x)).collect();
            let mut toks: Vec<(String, String)> = Vec::new();
            let rest = &f[2 + n..];
            let mut i = 0;
            while i + 1 < rest.len() {
                toks.push((dec(rest[i]), dec(rest[i + 1])));
                i += 2;
            }
            h::expand_args_in_tokens(&mut toks, &args);
            tokens_str(&toks)
        }
        _ => "?bad-case".to_string(),
    });
}
