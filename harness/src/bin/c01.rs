use cicada::verif::parsers::parser_line;
use cicada::verif::shell::{self, Shell};
use cicada::verif::types::{Command, CommandLine};
use hx::*;

fn rerr(e: &str) -> String {
    let n = match e {
        "bad redirection syntax near &" => "EBadNearAmp",
        "Bad file descriptor #1" => "EBadFd1",
        "Bad file descriptor #2" => "EBadFd2",
        "Bad file descriptor #3" => "EBadFd3",
        "redirection syntax error" => "ESyntax",
        "syntax error: empty command" => "EEmpty",
        _ => "EOther",
    };
    format!("E({})", n)
}

fn redirs_str(r: &[(String, String, String)]) -> String {
    let v: Vec<String> = r.iter().map(|(a, b, c)| format!("({},{},{})", q(a), q(b), q(c))).collect();
    format!("[{}]", v.join(","))
}

fn cmd_str(c: &Command) -> String {
    let from = match &c.redirect_from {
        None => "None".to_string(),
        Some((t, v)) => format!("({},{})", q(t), q(v)),
    };
    format!("C(tokens={},redirs={},from={})", tokens_str(&c.tokens), redirs_str(&c.redirects_to), from)
}

fn tokens_of_fields(f: &[&str]) -> Vec<(String, String)> {
    let mut v = Vec::new();
    let mut i = 0;
    while i + 1 < f.len() {
        v.push((dec(f[i]), dec(f[i + 1])));
        i += 2;
    }
    v
}

fn plan_str(cl: &CommandLine) -> String {
    let mut ks: Vec<&String> = cl.envs.keys().collect();
    ks.sort();
    let envs: Vec<String> = ks.iter().map(|k| format!("{}={}", q(k), q(&cl.envs[*k]))).collect();
    let cmds: Vec<String> = cl.commands.iter().map(cmd_str).collect();
    format!("P(bg={},envs=[{}],cmds=[{}])", if cl.background { 1 } else { 0 }, envs.join(","), cmds.join(","))
}

fn main() {
    main_loop(|f| match f[0] {
        "tok" => {
            let li = parser_line::parse_line(&dec(f[1]));
            format!("{} complete={}", tokens_str(&li.tokens), if li.is_complete { 1 } else { 0 })
        }
        "l2c" => qlist(&parser_line::line_to_cmds(&dec(f[1]))),
        "redir" => match parser_line::tokens_to_redirections(&tokens_of_fields(&f[1..])) {
            Ok((t, r)) => format!("R(tokens={},redirs={})", tokens_str(&t), redirs_str(&r)),
            Err(e) => rerr(&e),
        },
        "fromtok" => match Command::from_tokens(tokens_of_fields(&f[1..])) {
            Ok(c) => cmd_str(&c),
            Err(e) => rerr(&e),
        },
        // the real from_line, plus the tokens the real expansion produced for the same line
        "plan" => {
            let line = dec(f[1]);
            let mut sh = Shell::new();
            let mut toks = parser_line::parse_line(&line).tokens;
            shell::do_expansion(&mut sh, &mut toks);
            let mut sh2 = Shell::new();
            let plan = match CommandLine::from_line(&line, &mut sh2) {
                Ok(cl) => plan_str(&cl),
                Err(e) => rerr(&e),
            };
            format!("exp={} plan={}", tokens_str(&toks), plan)
        }
        "unquote" => q(&parser_line::unquote(&dec(f[1]))),
        _ => "?bad-case".to_string(),
    });
}
