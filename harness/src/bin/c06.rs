//! C06: drives Shell's job table, jobc::wait_fg_job and jobc::try_wait_bg_jobs
//! in-process with injected wait statuses; prints the same snapshot lines as
//! ocaml/c06/drv.ml.
use cicada::verif::jobc;
use cicada::verif::shell::Shell;
use cicada::verif::signals;
use cicada::verif::types::WaitStatus;
use hx::*;

#[derive(Clone, Copy)]
enum Ev {
    X(i32, i32),
    K(i32, i32),
    S(i32, i32),
    C(i32),
}

fn ws(e: Ev) -> WaitStatus {
    match e {
        Ev::X(p, s) => WaitStatus::from_exited(p, s),
        Ev::K(p, s) => WaitStatus::from_signaled(p, s),
        Ev::S(p, s) => WaitStatus::from_stopped(p, s),
        Ev::C(p) => WaitStatus::from_continuted(p),
    }
}

fn ints(s: &str) -> Vec<i32> {
    if s.is_empty() {
        return vec![];
    }
    s.split(',').map(|x| x.parse::<i32>().unwrap()).collect()
}

fn ev_of(s: &str) -> Ev {
    let body = &s[1..];
    let two = || {
        let v: Vec<&str> = body.split('.').collect();
        (v[0].parse::<i32>().unwrap(), v[1].parse::<i32>().unwrap())
    };
    match s.as_bytes()[0] {
        b'x' => { let (p, v) = two(); Ev::X(p, v) }
        b'k' => { let (p, v) = two(); Ev::K(p, v) }
        b's' => { let (p, v) = two(); Ev::S(p, v) }
        b'c' => Ev::C(body.parse::<i32>().unwrap()),
        _ => panic!("bad event"),
    }
}

fn evs_of(s: &str) -> Vec<Ev> {
    if s.is_empty() {
        return vec![];
    }
    s.split(';').map(ev_of).collect()
}

fn join<T: ToString>(v: &[T]) -> String {
    v.iter().map(|x| x.to_string()).collect::<Vec<_>>().join(",")
}

fn kvs(v: &[(i32, i32)]) -> String {
    v.iter().map(|(k, x)| format!("{}={}", k, x)).collect::<Vec<_>>().join(",")
}

fn snap(sh: &Shell, status: i32, blocked: bool, left: usize) -> String {
    let mut ids: Vec<i32> = sh.jobs.keys().cloned().collect();
    ids.sort();
    let mut js = vec![];
    for i in ids {
        let j = &sh.jobs[&i];
        let mut st: Vec<i32> = j.pids_stopped.iter().cloned().collect();
        st.sort();
        // the key of the map and the id field are both shown when they differ
        let idtxt = if i == j.id { format!("{}", i) } else { format!("{}/{}", i, j.id) };
        js.push(format!("{}:{}:[{}]:[{}]:{}:{}", idtxt, j.gid, join(&j.pids), join(&st), j.status,
                        if j.is_bg { "bg" } else { "fg" }));
    }
    let (reap, stop, cont, kill) = signals::verif_hooks::snapshot();
    format!("jobs=[{}] reap=[{}] stop=[{}] cont=[{}] kill=[{}] st={} blk={} left={}",
            js.join(";"), kvs(&reap), join(&stop), join(&cont), kvs(&kill), status,
            if blocked { 1 } else { 0 }, left)
}

fn hist(ops: &[&str]) -> String {
    signals::verif_hooks::clear();
    jobc::verif_hooks::set_injected(Some(vec![]));
    let mut sh = Shell::new();
    let mut pending: Vec<Ev> = vec![];
    let mut status = 0;
    let mut out = vec![];
    for f in ops {
        let f = dec(f);
        let parts: Vec<&str> = f.split(':').collect();
        let blocked;
        match parts[0] {
            "L" => {
                let gid = parts[1].parse::<i32>().unwrap();
                let bg = parts[2] == "1";
                for p in ints(parts[3]) {
                    sh.insert_job(gid, p, "c", "Running", bg);
                }
                blocked = false;
            }
            "W" => {
                let gid = parts[1].parse::<i32>().unwrap();
                let pids = ints(parts[2]);
                pending.extend(evs_of(parts[3]));
                let mut q: Vec<WaitStatus> = pending.iter().map(|e| ws(*e)).collect();
                // sentinel: a status of kind "others" is ignored by the loop; if it gets
                // consumed the real wait would still be blocking after all real statuses
                q.push(WaitStatus::from_others());
                jobc::verif_hooks::set_injected(Some(q));
                let cr = jobc::wait_fg_job(&mut sh, gid, &pids);
                status = cr.status;
                let left = jobc::verif_hooks::injected_left();
                if left == 0 {
                    blocked = true;
                    pending.clear();
                } else {
                    blocked = false;
                    let n = pending.len();
                    pending = pending[n - (left - 1)..].to_vec();
                }
            }
            "P" => {
                pending.extend(evs_of(parts[1]));
                let q: Vec<WaitStatus> = pending.iter().map(|e| ws(*e)).collect();
                jobc::verif_hooks::set_injected(Some(q));
                jobc::try_wait_bg_jobs(&mut sh, true, false);
                let left = jobc::verif_hooks::injected_left();
                let n = pending.len();
                pending = pending[n - left..].to_vec();
                blocked = false;
            }
            _ => return "?bad-op".to_string(),
        }
        out.push(snap(&sh, status, blocked, pending.len()));
    }
    jobc::verif_hooks::set_injected(Some(vec![]));
    out.join(" | ")
}

fn main() {
    main_loop(|f| match f[0] {
        "hist" => hist(&f[1..]),
        _ => "?bad-case".to_string(),
    });
}
