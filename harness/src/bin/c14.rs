use cicada::verif::parsers::locust;
use hx::*;
use pest::iterators::Pair;

fn char_index(text: &str) -> Vec<usize> {
    // byte offset -> char offset (defined at char boundaries and at len)
    let mut m = vec![0usize; text.len() + 1];
    let mut k = 0;
    for (b, _) in text.char_indices() {
        m[b] = k;
        k += 1;
    }
    m[text.len()] = k;
    m
}

fn show(pair: Pair<locust::Rule>, m: &[usize], out: &mut String) {
    let sp = pair.as_span();
    out.push_str(&format!("({:?} {} {}", pair.as_rule(), m[sp.start()], m[sp.end()]));
    for k in pair.into_inner() {
        out.push(' ');
        show(k, m, out);
    }
    out.push(')');
}

fn showt(pair: Pair<locust::Rule>, out: &mut String) {
    out.push_str(&format!("({:?} {}", pair.as_rule(), q(pair.as_str().trim())));
    for k in pair.into_inner() {
        out.push(' ');
        showt(k, out);
    }
    out.push(')');
}

fn main() {
    main_loop(|f| match f[0] {
        "parse" => {
            let text = dec(f[1]);
            match locust::parse_lines(&text) {
                Ok(pairs) => {
                    let m = char_index(&text);
                    let mut items = Vec::new();
                    let mut end = 0;
                    for p in pairs {
                        end = m[p.as_span().end()];
                        let mut s = String::new();
                        show(p, &m, &mut s);
                        items.push(s);
                    }
                    format!("OK {} {}", end, items.join(" "))
                }
                Err(_) => "ERR".to_string(),
            }
        }
        "ptree" => {
            let text = dec(f[1]);
            match locust::parse_lines(&text) {
                Ok(pairs) => {
                    let mut items = Vec::new();
                    for p in pairs {
                        let mut s = String::new();
                        showt(p, &mut s);
                        items.push(s);
                    }
                    format!("OK {}", items.join(" "))
                }
                Err(_) => "ERR".to_string(),
            }
        }
        _ => "?bad-case".to_string(),
    });
}
