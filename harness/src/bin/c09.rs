//! C09 harness: pure functions (unquote, is_env, drain_env_tokens, split_into_fields,
//! remove_env's name test) and whole histories run through execute::run_proc against a
//! fresh Shell in a forked child (the histories change the process environment and cwd).
use cicada::verif::execute::verif_hooks::run_proc;
use cicada::verif::parsers::parser_line;
use cicada::verif::shell::verif_hooks::expand_one_env;
use cicada::verif::shell::Shell;
use cicada::verif::tools;
use cicada::verif::types::verif_hooks::drain_env_tokens;
use hx::*;
use std::collections::HashMap;
use std::io::{Read, Write};

const TRACKED: [&str; 8] = ["A", "B", "AB", "A_1", "HOME", "IFS", "PWD", "REPLY"];

fn sorted_map(m: &[(String, String)]) -> String {
    let mut v: Vec<&(String, String)> = m.iter().collect();
    v.sort();
    let items: Vec<String> = v.iter().map(|(k, x)| format!("{}={}", enc(k), q(x))).collect();
    format!("{{{}}}", items.join(","))
}

/// hp's own encoding is percent-encoding as well (it also escapes blank, comma, colon)
fn hp_field<'a>(line: &'a str, key: &str) -> &'a str {
    for f in line.trim_end_matches('\n').split('\t') {
        if let Some(r) = f.strip_prefix(key) {
            return r;
        }
    }
    ""
}

fn state_str(sh: &Shell) -> String {
    let mut loc = Vec::new();
    let mut env = Vec::new();
    for n in TRACKED.iter() {
        if let Some(v) = sh.envs.get(*n) {
            loc.push((n.to_string(), v.clone()));
        }
        if let Ok(v) = std::env::var(n) {
            env.push((n.to_string(), v));
        }
    }
    let cwd = tools::get_current_dir();
    let cur = if cwd == sh.current_dir { q(&cwd) } else { format!("MISMATCH({},{})", q(&cwd), q(&sh.current_dir)) };
    format!("L{} E{} cwd={} prev={}", sorted_map(&loc), sorted_map(&env), cur, q(&sh.previous_dir))
}

fn run_history(f: &[&str]) -> String {
    let root = dec(f[1]);
    let env0 = dec(f[3]);
    let keep: Vec<String> = std::env::vars().map(|(k, _)| k).collect();
    for k in keep {
        std::env::remove_var(k);
    }
    std::env::set_var("PATH", "/usr/bin:/bin");
    for p in env0.split('\x1f') {
        if let Some(i) = p.find('=') {
            std::env::set_var(&p[..i], &p[i + 1..]);
        }
    }
    let trace = format!("{}/.trace-{}", std::env::temp_dir().display(), std::process::id());
    std::env::set_var("VERIF_TRACE", &trace);
    std::env::set_var("VERIF_ENVNAMES", TRACKED.join(","));
    std::env::set_current_dir(&root).expect("chdir root");
    let mut sh = Shell::new();
    let mut out: Vec<String> = Vec::new();
    let mut i = 4;
    while i + 1 < f.len() {
        let abs = dec(f[i]);
        let text = dec(f[i + 1]);
        i += 2;
        let _ = std::fs::remove_file(&trace);
        let outcome;
        if abs.starts_with("F\x1f") {
            outcome = format!("val={}", q(&expand_one_env(&sh, &text)));
        } else {
            let r = std::panic::catch_unwind(std::panic::AssertUnwindSafe(|| run_proc(&mut sh, &text, false, false)));
            match r {
                Err(_) => {
                    out.push("PANIC".to_string());
                    break;
                }
                Ok(cr) => {
                    let tr = std::fs::read_to_string(&trace).unwrap_or_default();
                    if let Some(line) = tr.lines().next() {
                        let argv: Vec<String> = hp_field(line, "argv=").split(',').skip(1).map(dec).collect();
                        let mut ents = Vec::new();
                        let e = hp_field(line, "env=");
                        if !e.is_empty() {
                            for kv in e.split(',') {
                                let mut it = kv.splitn(2, ':');
                                let k = dec(it.next().unwrap());
                                let v = dec(it.next().unwrap_or(""));
                                ents.push(format!("{}:{}", k, q(&v)));
                            }
                        }
                        outcome = format!("child argv={} env=[{}] cwd={}", qlist(&argv), ents.join(","), q(&dec(hp_field(line, "cwd="))));
                    } else {
                        outcome = format!("st={}", if cr.status == 0 { 0 } else { 1 });
                    }
                }
            }
        }
        out.push(format!("{}|{}", outcome, state_str(&sh)));
    }
    let _ = std::fs::remove_file(&trace);
    out.join("\t")
}

/// one history per forked child; the result comes back through a pipe
fn forked(f: &[&str]) -> String {
    let mut fds = [0i32; 2];
    unsafe {
        if libc::pipe(fds.as_mut_ptr()) != 0 {
            return "PIPE-ERROR".to_string();
        }
        let pid = libc::fork();
        if pid == 0 {
            libc::close(fds[0]);
            let s = run_history(f);
            let b = s.as_bytes();
            let mut off = 0;
            while off < b.len() {
                let n = libc::write(fds[1], b[off..].as_ptr() as *const libc::c_void, b.len() - off);
                if n <= 0 {
                    break;
                }
                off += n as usize;
            }
            libc::_exit(0);
        }
        libc::close(fds[1]);
        let mut buf = Vec::new();
        let mut file = <std::fs::File as std::os::unix::io::FromRawFd>::from_raw_fd(fds[0]);
        let _ = file.read_to_end(&mut buf);
        let mut st = 0;
        libc::waitpid(pid, &mut st, 0);
        let s = String::from_utf8_lossy(&buf).to_string();
        if libc::WIFEXITED(st) && libc::WEXITSTATUS(st) == 0 {
            s
        } else {
            format!("{}\tDIED({})", s, st)
        }
    }
}

fn tokens_of(f: &[&str]) -> Vec<(String, String)> {
    let mut v = Vec::new();
    let mut i = 0;
    while i + 1 < f.len() {
        v.push((dec(f[i]), dec(f[i + 1])));
        i += 2;
    }
    v
}

fn opt_ifs(f: &str) -> Option<String> {
    if f == "-" { None } else { Some(dec(&f[1..])) }
}

fn main() {
    let _ = std::io::stdout().flush();
    main_loop(|f| match f[0] {
        "unq" => q(&parser_line::unquote(&dec(f[1]))),
        "isenv" => format!("{}", tools::is_env(&dec(f[1]))),
        "rmname" => {
            let mut sh = Shell::new();
            format!("{}", sh.remove_env(&dec(f[1])))
        }
        "drain" => {
            let mut t = tokens_of(&f[1..]);
            let envs = drain_env_tokens(&mut t);
            let m: Vec<(String, String)> = envs.into_iter().collect();
            format!("envs={} rest={}", sorted_map(&m), tokens_str(&t))
        }
        "split" => {
            let mut sh = Shell::new();
            std::env::remove_var("IFS");
            if let Some(x) = opt_ifs(f[1]) {
                sh.envs.insert("IFS".to_string(), x);
            }
            if let Some(x) = opt_ifs(f[2]) {
                std::env::set_var("IFS", x);
            }
            let mut envs = HashMap::new();
            if let Some(x) = opt_ifs(f[3]) {
                envs.insert("IFS".to_string(), x);
            }
            let r = tools::split_into_fields(&sh, &dec(f[4]), &envs);
            std::env::remove_var("IFS");
            qlist(&r)
        }
        "hist" => forked(f),
        _ => "?bad-case".to_string(),
    });
}
