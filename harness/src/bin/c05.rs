//! C05: the pure stages of the shell under catch_unwind + watchdog.
//! Ops (first field):
//!   line <text>                 line_to_cmds -> per segment parse_line, is_arithmetic, the real
//!                               do_expansion, the real CommandLine::from_line, and the first-word
//!                               look-ups of run_proc / run_pipeline (emulated WITHOUT forking, see fw())
//!   alias <line> <name> <value> ...   shell::expand_alias on parse_line(line) under that alias table
//!   (line also takes <name> <value> pairs after the text: the aliases of the shell that plans it)
//!   redir / fromtok <tag> <word> ...   tokens_to_redirections / Command::from_tokens on a token list
//!   hl <text>                   <CicadaHighlighter as lineread::Highlighter>::highlight -> ranges
//!   hlr <start> <tag> <word> <text>   find_token_range_heuristic at an arbitrary byte offset
//!   ws <text>                   completers::escaped_word_start
//!   misc <text>                 is_arithmetic (compared) + trim_multiline_prompts, extend_bangbang,
//!                               try_run_calculator when arithmetic (observed for panics only)
use cicada::verif::parsers::parser_line;
use cicada::verif::shell::{self, Shell};
use cicada::verif::types::{Command, CommandLine};
use cicada::verif::{completers, core, highlight, tools};
use hx::*;
use lineread::highlighting::Highlighter;
use std::panic::{catch_unwind, AssertUnwindSafe};

fn rerr(e: &str) -> String {
    let n = match e {
        "bad redirection syntax near &" => "EBadNearAmp",
        "Bad file descriptor #1" => "EBadFd1",
        "Bad file descriptor #2" => "EBadFd2",
        "Bad file descriptor #3" => "EBadFd3",
        "redirection syntax error" => "ESyntax",
        "syntax error: empty command" => "EEmpty",
        _ => "EOther",
    };
    format!("E({})", n)
}

fn redirs_str(r: &[(String, String, String)]) -> String {
    let v: Vec<String> = r.iter().map(|(a, b, c)| format!("({},{},{})", q(a), q(b), q(c))).collect();
    format!("[{}]", v.join(","))
}

fn cmd_str(c: &Command) -> String {
    let from = match &c.redirect_from {
        None => "None".to_string(),
        Some((t, v)) => format!("({},{})", q(t), q(v)),
    };
    format!("C(tokens={},redirs={},from={})", tokens_str(&c.tokens), redirs_str(&c.redirects_to), from)
}

fn tokens_of_fields(f: &[&str]) -> Vec<(String, String)> {
    let mut v = Vec::new();
    let mut i = 0;
    while i + 1 < f.len() {
        v.push((dec(f[i]), dec(f[i + 1])));
        i += 2;
    }
    v
}

fn plan_str(cl: &CommandLine) -> String {
    let mut ks: Vec<&String> = cl.envs.keys().collect();
    ks.sort();
    let envs: Vec<String> = ks.iter().map(|k| format!("{}={}", q(k), q(&cl.envs[*k]))).collect();
    let cmds: Vec<String> = cl.commands.iter().map(cmd_str).collect();
    format!("P(bg={},envs=[{}],cmds=[{}])", if cl.background { 1 } else { 0 }, envs.join(","), cmds.join(","))
}

/// What run_proc (execute.rs:97-122) and run_pipeline (core.rs:120-260) evaluate on a planned
/// line before / around forking, in the same order, using the real methods
/// (`CommandLine::is_empty`, `is_single_and_builtin`, `Command::is_builtin`) and, for
/// try_run_func (core.rs:625-626), the same index expression. Nothing is forked or run.
fn fw(cl: &CommandLine, arith: bool) -> String {
    if cl.is_empty() {
        return "Skip".to_string();
    }
    if arith {
        return "Calc".to_string();
    }
    // try_run_func: `let command = &cl.commands[0]; sh.get_func(&command.tokens[0].1)`
    let r = catch_unwind(AssertUnwindSafe(|| {
        let command = &cl.commands[0];
        command.tokens[0].1.len()
    }));
    if r.is_err() {
        return "PanicShell".to_string();
    }
    let mut child_panics: Vec<String> = Vec::new();
    for i in 0..cl.commands.len() {
        // run_single_program: `if cl.is_single_and_builtin()` is evaluated in the shell
        match catch_unwind(AssertUnwindSafe(|| cl.is_single_and_builtin())) {
            Err(_) => return "PanicShell".to_string(),
            Ok(true) => {
                // try_run_builtin: `tokens[0].1.clone()` (core.rs:50), in the shell
                if catch_unwind(AssertUnwindSafe(|| cl.commands[i].tokens[0].1.len())).is_err() {
                    return "PanicShell".to_string();
                }
            }
            Ok(false) => {
                // in the forked child: `if cmd.is_builtin()` then `&cmd.tokens[0].1`
                let cmd = cl.commands.get(i).unwrap();
                if catch_unwind(AssertUnwindSafe(|| cmd.is_builtin())).is_err() {
                    child_panics.push(i.to_string());
                }
            }
        }
    }
    format!("Run[{}]", child_panics.join(","))
}

fn ranges_str(v: &[(usize, usize)]) -> String {
    let items: Vec<String> = v.iter().map(|(a, b)| format!("({},{})", a, b)).collect();
    format!("R[{}]", items.join(","))
}

fn main() {
    // (a forked child of the code under test that panics is stopped by hx::main_loop itself)
    // commands run by the real expansion (`$(cat)`, backquotes) must not wait on whatever stdin the driver inherited
    unsafe {
        let fd = libc::open(b"/dev/null\0".as_ptr() as *const libc::c_char, libc::O_RDONLY);
        if fd >= 0 {
            libc::dup2(fd, 0);
            libc::close(fd);
        }
    }
    main_loop(|f| op(f));
}

/// Every `line` case runs in its own empty directory (removed afterwards, also when the case panics): the real
/// expansion globs the current directory and command substitutions with redirections create files in it, so a shared
/// directory would make a case depend on what earlier / parallel cases left behind.
struct CaseDir {
    base: std::path::PathBuf,
    dir: std::path::PathBuf,
    pid: u32,
}
impl CaseDir {
    fn enter() -> CaseDir {
        static BASE: std::sync::OnceLock<std::path::PathBuf> = std::sync::OnceLock::new();
        static N: std::sync::atomic::AtomicUsize = std::sync::atomic::AtomicUsize::new(0);
        let base = BASE.get_or_init(|| std::env::current_dir().unwrap()).clone();
        let n = N.fetch_add(1, std::sync::atomic::Ordering::SeqCst);
        let dir = base.join(format!("case_{}_{}", std::process::id(), n));
        let _ = std::fs::create_dir(&dir);
        let _ = std::env::set_current_dir(&dir);
        CaseDir { base, dir, pid: std::process::id() }
    }
}
impl Drop for CaseDir {
    fn drop(&mut self) {
        if std::process::id() != self.pid {
            return; // a forked child that is unwinding: the directory belongs to the parent
        }
        let _ = std::env::set_current_dir(&self.base);
        let _ = std::fs::remove_dir_all(&self.dir);
    }
}

fn op(f: &[&str]) -> String {
    match f[0] {
        "line" => {
            let _cd = CaseDir::enter();
            let line = dec(f[1]);
            let segs = parser_line::line_to_cmds(&line);
            let mut out = format!("segs={}", qlist(&segs));
            let mut sh = Shell::new();
            // optional alias table: name, value pairs after the line
            let mut k = 2;
            while k + 1 < f.len() {
                sh.add_alias(&dec(f[k]), &dec(f[k + 1]));
                k += 2;
            }
            for seg in segs {
                if seg == ";" || seg == "&&" || seg == "||" {
                    continue;
                }
                let li = parser_line::parse_line(&seg);
                let arith = tools::is_arithmetic(&seg);
                let mut toks = li.tokens.clone();
                shell::do_expansion(&mut sh, &mut toks);
                let (plan, look) = match CommandLine::from_line(&seg, &mut sh) {
                    Ok(cl) => {
                        if cl.is_empty() && !cl.envs.is_empty() {
                            for (k, v) in cl.envs.iter() {
                                sh.set_env(k, v);
                            }
                        }
                        (plan_str(&cl), fw(&cl, arith))
                    }
                    Err(e) => (rerr(&e), "-".to_string()),
                };
                out.push_str(&format!(
                    "\tS tok={} arith={} exp={} plan={} fw={}",
                    tokens_str(&li.tokens),
                    if arith { 1 } else { 0 },
                    tokens_str(&toks),
                    plan,
                    look
                ));
            }
            out
        }
        // front <line>: the splitter, the tokenizer and is_arithmetic only (no expansion, no planning): cheap enough for
        // the directed exhaustive searches of round 9 (same text as the model's `front` op)
        "front" => {
            let line = dec(f[1]);
            let segs = parser_line::line_to_cmds(&line);
            let mut out = format!("segs={}", qlist(&segs));
            for seg in segs {
                if seg == ";" || seg == "&&" || seg == "||" {
                    continue;
                }
                let li = parser_line::parse_line(&seg);
                let arith = tools::is_arithmetic(&seg);
                out.push_str(&format!("\tS tok={} arith={}", tokens_str(&li.tokens), if arith { 1 } else { 0 }));
            }
            out
        }
        // alias <line> <name> <value> ...: the real expand_alias on the tokens of the line
        "alias" => {
            let mut sh = Shell::new();
            let mut k = 2;
            while k + 1 < f.len() {
                sh.add_alias(&dec(f[k]), &dec(f[k + 1]));
                k += 2;
            }
            let mut toks = parser_line::parse_line(&dec(f[1])).tokens;
            shell::verif_hooks::expand_alias(&sh, &mut toks);
            tokens_str(&toks)
        }
        "redir" => match parser_line::tokens_to_redirections(&tokens_of_fields(&f[1..])) {
            Ok((t, r)) => format!("R(tokens={},redirs={})", tokens_str(&t), redirs_str(&r)),
            Err(e) => rerr(&e),
        },
        "fromtok" => match Command::from_tokens(tokens_of_fields(&f[1..])) {
            Ok(c) => cmd_str(&c),
            Err(e) => rerr(&e),
        },
        "hl" => {
            let line = dec(f[1]);
            let h = highlight::create_highlighter();
            let v: Vec<(usize, usize)> = h.highlight(&line).into_iter().map(|(r, _)| (r.start, r.end)).collect();
            ranges_str(&v)
        }
        "hlr" => {
            let start: usize = f[1].parse().unwrap();
            let tok = (dec(f[2]), dec(f[3]));
            let line = dec(f[4]);
            match highlight::verif_hooks::find_token_range_heuristic(&line, start, &tok) {
                None => "None".to_string(),
                Some(r) => format!("({},{})", r.start, r.end),
            }
        }
        "ws" => {
            let line = dec(f[1]);
            let n = completers::escaped_word_start(&line);
            // what lineread does with the result: `if start > end { panic }`, `&buffer[start..end]`
            let _ = &line[n..];
            format!("{}", n)
        }
        "misc" => {
            let line = dec(f[1]);
            let arith = tools::is_arithmetic(&line);
            let _ = shell::trim_multiline_prompts(&line);
            let mut sh = Shell::new();
            sh.previous_cmd = "echo 'p q' | x".to_string();
            let mut l2 = line.clone();
            tools::extend_bangbang(&sh, &mut l2);
            if arith {
                let _ = core::verif_hooks::try_run_calculator(&line, true);
            }
            format!("arith={}", if arith { 1 } else { 0 })
        }
        _ => "?bad-case".to_string(),
    }
}
