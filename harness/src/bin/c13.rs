// C13: the real CommandLine::from_line under a given world (variables, cwd), plus the
// tokens the real do_expansion produced for the same line.  World / token wire format
// as in expand_ops.rs; plan printing as in c01.rs.
#[path = "../expand_ops.rs"]
mod expand_ops;
use cicada::verif::parsers::parser_line;
use cicada::verif::shell;
use cicada::verif::types::{Command, CommandLine};
use hx::*;

fn rerr(e: &str) -> String {
    let n = match e {
        "bad redirection syntax near &" => "EBadNearAmp",
        "Bad file descriptor #1" => "EBadFd1",
        "Bad file descriptor #2" => "EBadFd2",
        "Bad file descriptor #3" => "EBadFd3",
        "redirection syntax error" => "ESyntax",
        "syntax error: empty command" => "EEmpty",
        _ => "EOther",
    };
    format!("E({})", n)
}

fn redirs_str(r: &[(String, String, String)]) -> String {
    let v: Vec<String> = r.iter().map(|(a, b, c)| format!("({},{},{})", q(a), q(b), q(c))).collect();
    format!("[{}]", v.join(","))
}

fn cmd_str(c: &Command) -> String {
    let from = match &c.redirect_from {
        None => "None".to_string(),
        Some((t, v)) => format!("({},{})", q(t), q(v)),
    };
    format!("C(tokens={},redirs={},from={})", tokens_str(&c.tokens), redirs_str(&c.redirects_to), from)
}

fn plan_str(cl: &CommandLine) -> String {
    let mut ks: Vec<&String> = cl.envs.keys().collect();
    ks.sort();
    let envs: Vec<String> = ks.iter().map(|k| format!("{}={}", q(k), q(&cl.envs[*k]))).collect();
    let cmds: Vec<String> = cl.commands.iter().map(cmd_str).collect();
    format!("P(bg={},envs=[{}],cmds=[{}])", if cl.background { 1 } else { 0 }, envs.join(","), cmds.join(","))
}

fn main() {
    main_loop(|f| match f[0] {
        // plan <world> <fuel (model only)> <line>
        "plan" => {
            let line = dec(f[3]);
            let exp = {
                let mut a = expand_ops::apply_world(f[1]);
                let mut toks = parser_line::parse_line(&line).tokens;
                shell::do_expansion(&mut a.sh, &mut toks);
                tokens_str(&toks)
            };
            let plan = {
                let mut a = expand_ops::apply_world(f[1]);
                match CommandLine::from_line(&line, &mut a.sh) {
                    Ok(cl) => plan_str(&cl),
                    Err(e) => rerr(&e),
                }
            };
            format!("exp={} plan={}", exp, plan)
        }
        _ => expand_ops::op(f),
    });
}
