use cicada::verif::completers::escaped_word_start;
use cicada::verif::completers::path::{complete_path, verif_hooks};
use cicada::verif::parsers::parser_line;
use cicada::verif::shell::{self, Shell};
use cicada::verif::tools;
use cicada::verif::types::CommandLine;
use hx::*;

fn main() {
    // lines outside the literal class may run commands with redirections when expanded: work in a scratch directory
    if let Ok(d) = std::env::var("C20_CWD") {
        let _ = std::env::set_current_dir(d);
    }
    main_loop(|f| match f[0] {
        "esc" => q(&tools::escape_path(&dec(f[1]))),
        "wrap" => q(&tools::wrap_sep_string(&dec(f[1]), &dec(f[2]))),
        "ews" => {
            let s = dec(f[1]);
            let n = escaped_word_start(&s);
            format!("{} {}", n, if n <= s.len() && s.is_char_boundary(n) { "B" } else { "NB" })
        }
        "neh" => (if verif_hooks::needs_expand_home(&dec(f[1])) { "1" } else { "0" }).to_string(),
        "sp" => {
            let (_, d, x) = verif_hooks::split_pathname(&dec(f[1]), "");
            format!("({},{})", q(&d), q(&x))
        }
        "cp" => {
            let cwd = dec(f[1]);
            std::env::set_current_dir(&cwd).expect("cwd");
            let v = dec(f[4]);
            if v.is_empty() { std::env::remove_var("CV"); } else { std::env::set_var("CV", &v); }
            let cs = complete_path(&dec(f[2]), f[3] == "1");
            let items: Vec<String> = cs.iter().map(|c| {
                let d = match &c.display { None => "None".to_string(), Some(x) => q(x) };
                let sfx = format!("{:?}", c.suffix);
                let s = match sfx.as_str() { "Some('/')" => "d", "Default" => "f", _ => "?" };
                format!("({},{},{})", q(&c.completion), d, s)
            }).collect();
            format!("[{}]", items.join(","))
        }
        // what the shell does with a whole line after Enter (real expansion passes, real planner)
        "rt" => {
            let line = dec(f[1]);
            let segs = parser_line::line_to_cmds(&line);
            if segs.len() != 1 {
                return format!("segs={} echo={}", segs.len(), q(&line));
            }
            let toks = parser_line::parse_line(&segs[0]).tokens;
            let mut sh = Shell::new();
            let mut exp = toks.clone();
            shell::do_expansion(&mut sh, &mut exp);
            let mut sh2 = Shell::new();
            let argv = match CommandLine::from_line(&segs[0], &mut sh2) {
                Ok(cl) => {
                    if cl.commands.len() == 1 && !cl.background && cl.envs.is_empty()
                        && cl.commands[0].redirects_to.is_empty() && cl.commands[0].redirect_from.is_none() {
                        let v: Vec<String> = cl.commands[0].tokens.iter().map(|t| t.1.clone()).collect();
                        format!("A{}", qlist(&v))
                    } else { "N".to_string() }
                }
                Err(_) => "N".to_string(),
            };
            format!("segs=1 toks={} exp={} argv={} echo={}", tokens_str(&toks), tokens_str(&exp), argv, q(&line))
        }
        // splitting and tokenizing only (lines whose expansion may run commands or not terminate)
        "rtk" => {
            let line = dec(f[1]);
            let segs = parser_line::line_to_cmds(&line);
            if segs.len() != 1 {
                return format!("segs={} echo={}", segs.len(), q(&line));
            }
            format!("segs=1 toks={} echo={}", tokens_str(&parser_line::parse_line(&segs[0]).tokens), q(&line))
        }
        _ => "?bad-case".to_string(),
    });
}
