//! C17 in-process layer: one Shell per scenario; ops separated by TAB, sub-fields by 0x1f.
//!   S name value      sh.add_alias (table method)
//!   B arg...          alias builtin with these argument texts (untagged tokens)
//!   U arg...          unalias builtin
//!   E line            tokens = parse_line(line); expand_alias(&sh, &mut tokens)
//! Every op prints one JSON object (strings percent-encoded) holding what the
//! model needs as data from the real tokenizer: the tokenised alias values and
//! tools::unquote of the two halves of a definition argument.
use cicada::verif::builtins::{alias, unalias};
use cicada::verif::parsers::parser_line::parse_line;
use cicada::verif::shell::verif_hooks::expand_alias;
use cicada::verif::shell::Shell;
use cicada::verif::tools;
use cicada::verif::types::{Command, CommandLine};
use hx::*;
use std::collections::HashMap;

fn jq(s: &str) -> String {
    q(s).replace('\\', "%5C")
}

fn jtokens(t: &[(String, String)]) -> String {
    let v: Vec<String> = t.iter().map(|(a, b)| format!("[{},{}]", jq(a), jq(b))).collect();
    format!("[{}]", v.join(","))
}

fn jtable(sh: &Shell) -> String {
    let mut l = sh.get_alias_list();
    l.sort();
    let v: Vec<String> = l
        .iter()
        .map(|(n, v)| format!("[{},{},{}]", jq(n), jq(v), jtokens(&parse_line(v).tokens)))
        .collect();
    format!("[{}]", v.join(","))
}

/// alias arguments carry their tag as a first character: N (none), S (single quote), D (double quote)
fn mk(args: &[&str], name: &str) -> (CommandLine, Command) {
    let mut tokens: Vec<(String, String)> = vec![(String::new(), name.to_string())];
    for a in args {
        if name == "alias" {
            let sep = match &a[..1] { "S" => "'", "D" => "\"", _ => "" };
            tokens.push((sep.to_string(), a[1..].to_string()));
        } else {
            tokens.push((String::new(), a.to_string()));
        }
    }
    let cmd = Command { tokens: tokens.clone(), redirects_to: Vec::new(), redirect_from: None };
    let cl = CommandLine {
        line: name.to_string(),
        commands: vec![Command { tokens, redirects_to: Vec::new(), redirect_from: None }],
        envs: HashMap::new(),
        background: false,
    };
    (cl, cmd)
}

fn scenario(ops: &[&str]) -> String {
    let mut sh = Shell::new();
    let mut outs: Vec<String> = Vec::new();
    for opf in ops {
        let d = dec(opf);
        let f: Vec<&str> = d.split('\x1f').collect();
        match f[0] {
            "S" => {
                sh.add_alias(f[1], f[2]);
                outs.push(format!("{{\"table\":{}}}", jtable(&sh)));
            }
            "B" | "U" => {
                let (cl, cmd) = mk(&f[1..], if f[0] == "B" { "alias" } else { "unalias" });
                let cr = if f[0] == "B" { alias::run(&mut sh, &cl, &cmd, true) } else { unalias::run(&mut sh, &cl, &cmd, true) };
                let mut unq = String::from("[]");
                if f.len() == 2 {
                    let arg = if f[0] == "B" { &f[1][1..] } else { f[1] };
                    if let Some(p) = arg.find('=') {
                        let (a, b) = (&arg[..p], &arg[p + 1..]);
                        unq = format!("[[{},{}],[{},{}]]", jq(a), jq(&tools::unquote(a)), jq(b), jq(&tools::unquote(b)));
                    }
                }
                let mut lines: Vec<&str> = cr.stdout.split('\n').collect();
                lines.sort();
                outs.push(format!(
                    "{{\"out\":{},\"err\":{},\"table\":{},\"unq\":{}}}",
                    jq(&lines.join("\n")), jq(&cr.stderr), jtable(&sh), unq
                ));
            }
            "E" => {
                let mut tokens = parse_line(f[1]).tokens;
                let before = jtokens(&tokens);
                expand_alias(&sh, &mut tokens);
                outs.push(format!("{{\"before\":{},\"after\":{},\"table\":{}}}", before, jtokens(&tokens), jtable(&sh)));
            }
            _ => outs.push("\"?bad-op\"".to_string()),
        }
    }
    format!("[{}]", outs.join(","))
}

fn main() {
    main_loop(|f| match f[0] {
        "scn" => scenario(&f[1..]),
        _ => "?bad-case".to_string(),
    });
}
