//! C18 in-process layer: the real add_raw / history builtin on a database file per
//! scenario. After every state-changing op the database file is copied to
//! `<db>.<k>` so that the driver can read each intermediate table with an
//! independent sqlite client.
use cicada::verif::builtins::history as bh;
use cicada::verif::history;
use cicada::verif::shell::Shell;
use cicada::verif::types::{Command, CommandLine};
use hx::*;
use std::collections::HashMap;

fn builtin(sh: &mut Shell, args: &[String]) -> String {
    let tokens: Vec<(String, String)> = args.iter().map(|a| (String::new(), a.clone())).collect();
    let cmd = Command { tokens: tokens.clone(), redirects_to: Vec::new(), redirect_from: None };
    let cl = CommandLine {
        line: args.join(" "),
        commands: vec![Command { tokens, redirects_to: Vec::new(), redirect_from: None }],
        envs: HashMap::new(),
        background: false,
    };
    let cr = bh::run(sh, &cl, &cmd, true);
    format!("status={} out={} err={}", cr.status, q(&cr.stdout), q(if cr.stderr.is_empty() { "" } else { "E" }))
}

fn scenario(ops: &[&str]) -> String {
    let mut db = String::new();
    let mut k = 0;
    let mut outs: Vec<String> = Vec::new();
    for opf in ops {
        let d = dec(opf);
        let f: Vec<&str> = d.split('\x1f').collect();
        match f[0] {
            "P" => {
                db = f[1].to_string();
                std::env::set_var("HISTORY_FILE", &db);
                std::env::remove_var("HISTORY_TABLE");
                outs.push("P".to_string());
            }
            "A" => {
                let mut sh = Shell::new();
                sh.session_id = f[6].to_string();
                sh.current_dir = f[7].to_string();
                let status: i32 = f[2].parse().unwrap();
                let tsb: f64 = f[3].parse().unwrap();
                let tse: f64 = f[4].parse().unwrap();
                history::add_raw(&sh, f[1], status, tsb, tse);
                k += 1;
                std::fs::copy(&db, format!("{}.{}", db, k)).unwrap();
                outs.push(format!("A snap={}", k));
            }
            "D" => {
                let mut sh = Shell::new();
                let r = builtin(&mut sh, &["history".to_string(), "delete".to_string(), f[1].to_string()]);
                k += 1;
                std::fs::copy(&db, format!("{}.{}", db, k)).unwrap();
                outs.push(format!("D snap={} {}", k, r));
            }
            "L" => {
                let mut sh = Shell::new();
                sh.session_id = f[6].to_string();
                sh.current_dir = f[7].to_string();
                let mut a = vec!["history".to_string(), format!("--limit={}", f[5])];
                if f[2] == "1" { a.push("-s".to_string()); }
                if f[3] == "1" { a.push("-a".to_string()); }
                if f[4] == "1" { a.push("-p".to_string()); }
                if !f[1].is_empty() {
                    a.push("--".to_string());
                    a.push(f[1].to_string());
                }
                outs.push(format!("L {}", builtin(&mut sh, &a)));
            }
            _ => outs.push("?bad-op".to_string()),
        }
    }
    outs.join("\t")
}

fn main() {
    main_loop(|f| match f[0] {
        "scn" => scenario(&f[1..]),
        _ => "?bad-case".to_string(),
    });
}
