use cicada::verif::calculator::{self, Rule};
use cicada::verif::core;
use cicada::verif::parsers::parser_line;
use cicada::verif::tools;
use hx::*;

fn main() {
    main_loop(|f| match f[0] {
        "isar" => format!("{}", tools::is_arithmetic(&dec(f[1]))),
        "pl" => {
            let line = dec(f[1]);
            // only the arithmetic shortcut is C19's subject
            if !tools::is_arithmetic(&line) {
                return "none".to_string();
            }
            let li = parser_line::parse_line(&line);
            if li.tokens.iter().any(|(s, _)| !s.is_empty()) || !li.is_complete {
                return format!("?sep {}", tokens_str(&li.tokens));
            }
            let v: Vec<String> = li.tokens.iter().map(|(_, t)| t.clone()).collect();
            qlist(&v)
        }
        "pairs" => {
            // the children of the outer `expr` pair, flat: n"<text>", operators, ( ... ) for a
            // nested expr. Iterative walk: the pest types cannot be named from this crate.
            let line = dec(f[1]);
            match calculator::calculate(&line) {
                Ok(mut calc) => {
                    let mut out: Vec<String> = vec!["ok".to_string()];
                    let mut stack = vec![calc.next().unwrap().into_inner()];
                    while !stack.is_empty() {
                        let next = stack.last_mut().unwrap().next();
                        match next {
                            None => {
                                stack.pop();
                                if !stack.is_empty() {
                                    out.push(")".to_string());
                                }
                            }
                            Some(p) => match p.as_rule() {
                                Rule::num => out.push(format!("n{}", q(p.as_str()))),
                                Rule::add => out.push("+".to_string()),
                                Rule::subtract => out.push("-".to_string()),
                                Rule::multiply => out.push("*".to_string()),
                                Rule::divide => out.push("/".to_string()),
                                Rule::power => out.push("^".to_string()),
                                Rule::expr => {
                                    out.push("(".to_string());
                                    stack.push(p.into_inner());
                                }
                                r => out.push(format!("?{:?}", r)),
                            },
                        }
                    }
                    out.join(" ")
                }
                Err(_) => "err".to_string(),
            }
        }
        "calc" => match core::run_calculator(&dec(f[1])) {
            Ok(s) => format!("ok {}", q(&s)),
            Err(e) => format!("err {}", q(e)),
        },
        "calcf" => {
            // float mode: the bit pattern of what eval_float returns (every NaN printed as nan);
            // a line without a dot: what run_calculator returns, as for "calc"
            let line = dec(f[1]);
            if !line.contains('.') {
                return match core::run_calculator(&line) {
                    Ok(s) => format!("ok {}", q(&s)),
                    Err(e) => format!("err {}", q(e)),
                };
            }
            match calculator::calculate(&line) {
                Ok(mut calc) => {
                    let v = calculator::eval_float(calc.next().unwrap().into_inner());
                    if v.is_nan() { "f nan".to_string() } else { format!("f {:016x}", v.to_bits()) }
                }
                Err(_) => "err \"syntax error\"".to_string(),
            }
        }
        "try" => match core::verif_hooks::try_run_calculator(&dec(f[1]), true) {
            None => "none".to_string(),
            Some(cr) => {
                if cr.status == 0 && cr.stderr.is_empty() {
                    format!("ok {}", q(&cr.stdout))
                } else if cr.status == 1 && cr.stdout.is_empty() && !cr.stderr.is_empty() {
                    // a diagnostic
                    format!("err {}", q(&cr.stderr))
                } else {
                    format!("?cr status={} out={} err={}", cr.status, q(&cr.stdout), q(&cr.stderr))
                }
            }
        },
        "ovf" => {
            // which profile is this binary? (overflow checks on = 1)
            let r = std::panic::catch_unwind(|| {
                let x: i64 = std::hint::black_box(i64::MAX);
                let y: i64 = std::hint::black_box(1);
                x + y
            });
            if r.is_err() { "1".to_string() } else { "0".to_string() }
        }
        _ => "?bad-case".to_string(),
    });
}
