use cicada::verif::parsers::parser_line;
use cicada::verif::scripting::verif_hooks as sc;
use cicada::verif::tools;
use hx::*;

fn tokens_of_fields(f: &[&str]) -> Vec<(String, String)> {
    let mut v = Vec::new();
    let mut i = 0;
    while i + 1 < f.len() {
        v.push((dec(f[i]), dec(f[i + 1])));
        i += 2;
    }
    v
}

fn segs_str(line: &str) -> String {
    let segs: Vec<String> = parser_line::line_to_cmds(line)
        .iter()
        .map(|c| tokens_str(&parser_line::parse_line(c).tokens))
        .collect();
    format!("[{}]", segs.join(";"))
}

fn args_of(f: &[&str]) -> Vec<String> {
    f.iter().map(|a| dec(a)).collect()
}

fn main() {
    main_loop(|f| match f[0] {
        "tok" => tokens_str(&parser_line::parse_line(&dec(f[1])).tokens),
        "rt" => {
            let t = parser_line::parse_line(&dec(f[1])).tokens;
            let l = parser_line::tokens_to_line(&t);
            format!("T={} R={} L={}", tokens_str(&t), tokens_str(&parser_line::parse_line(&l).tokens), q(&l))
        }
        "xa" => q(&sc::expand_args(&dec(f[1]), &args_of(&f[2..]))),
        "xone" => q(&sc::expand_args_for_single_token(&dec(f[1]), &args_of(&f[2..]))),
        "isargs" => (if sc::is_args_in_token(&dec(f[1])) { "1" } else { "0" }).to_string(),
        "nopos" => {
            let toks = parser_line::parse_line(&dec(f[1])).tokens;
            let any = toks.iter().any(|(s, t)| s != "`" && s != "'" && sc::is_args_in_token(t));
            (if any { "0" } else { "1" }).to_string()
        }
        "wrap" => q(&tools::wrap_sep_string(&dec(f[1]), &dec(f[2]))),
        "t2l" => q(&parser_line::tokens_to_line(&tokens_of_fields(&f[1..]))),
        "law" => {
            let line = dec(f[1]);
            let r = sc::expand_args(&line, &args_of(&f[2..]));
            let li = parser_line::parse_line(&line);
            let pos = li.tokens.iter().any(|(s, t)| s != "`" && s != "'" && sc::is_args_in_token(t));
            format!("c={} p={} D={} S={}", if li.is_complete { 1 } else { 0 }, if pos { 1 } else { 0 }, segs_str(&line), segs_str(&r))
        }
        _ => "?bad-case".to_string(),
    });
}
