//! Shared helpers for the per-property harness binaries: the wire codec
//! (same as ocaml/common/codec.ml), case-file iteration with optional
//! sharding, panic / hang containment.
use std::io::{BufRead, Write};

const HEX: &[u8; 16] = b"0123456789ABCDEF";

pub fn enc(s: &str) -> String {
    let mut o = String::with_capacity(s.len() + 8);
    for &b in s.as_bytes() {
        if (0x20..=0x7e).contains(&b) && b != b'%' && b != b'"' {
            o.push(b as char);
        } else {
            o.push('%');
            o.push(HEX[(b >> 4) as usize] as char);
            o.push(HEX[(b & 15) as usize] as char);
        }
    }
    o
}

fn hv(c: u8) -> u8 {
    match c {
        b'0'..=b'9' => c - 48,
        b'A'..=b'F' => c - 55,
        b'a'..=b'f' => c - 87,
        _ => panic!("bad hex"),
    }
}

pub fn dec(s: &str) -> String {
    let b = s.as_bytes();
    let mut o = Vec::with_capacity(b.len());
    let mut i = 0;
    while i < b.len() {
        if b[i] == b'%' {
            o.push(hv(b[i + 1]) * 16 + hv(b[i + 2]));
            i += 3;
        } else {
            o.push(b[i]);
            i += 1;
        }
    }
    String::from_utf8(o).expect("case file must hold valid UTF-8")
}

pub fn q(s: &str) -> String {
    format!("\"{}\"", enc(s))
}

pub fn qlist(v: &[String]) -> String {
    let items: Vec<String> = v.iter().map(|x| q(x)).collect();
    format!("[{}]", items.join(","))
}

pub fn tokens_str(t: &[(String, String)]) -> String {
    let items: Vec<String> = t.iter().map(|(a, b)| format!("({},{})", q(a), q(b))).collect();
    format!("[{}]", items.join(","))
}

/// Runs `f` on every line of the case file named by argv[1] (fields split at
/// TAB, still encoded), printing one output line per case. Panics inside `f`
/// become the line `PANIC`. argv[2], argv[3] (optional) = shard index, count;
/// argv[4] (optional) = number of this shard's cases to skip (restart after a
/// hang). A watchdog thread prints `HANG` for a case that runs longer than
/// $HX_CASE_TIMEOUT_MS (default 4000) and exits the process with status 3; the
/// driver restarts the shard after that case.
pub fn main_loop<F: Fn(&[&str]) -> String + std::panic::RefUnwindSafe>(f: F) {
    use std::sync::atomic::{AtomicU64, Ordering};
    use std::sync::Arc;
    let args: Vec<String> = std::env::args().collect();
    let file = std::fs::File::open(&args[1]).expect("case file");
    let (shard, nshard) = if args.len() >= 4 {
        (args[2].parse::<usize>().unwrap(), args[3].parse::<usize>().unwrap())
    } else {
        (0, 1)
    };
    let skip = if args.len() >= 5 { args[4].parse::<usize>().unwrap() } else { 0 };
    let limit_ms: u64 = std::env::var("HX_CASE_TIMEOUT_MS").ok().and_then(|x| x.parse().ok()).unwrap_or(4000);
    std::panic::set_hook(Box::new(|_| {}));
    // Results go to a private duplicate of stdout; fd 1 itself is pointed at
    // /dev/null so that anything cicada prints with println! (diagnostics,
    // builtin output) cannot corrupt the one-line-per-case protocol.
    let result_fd = unsafe { dup(1) };
    unsafe {
        let devnull = open(b"/dev/null\0".as_ptr() as *const i8, 1);
        if devnull >= 0 {
            dup2(devnull, 1);
            if std::env::var("HX_KEEP_STDERR").is_err() {
                dup2(devnull, 2);
            }
            close(devnull);
        }
    }
    let mut out = unsafe { <std::fs::File as std::os::unix::io::FromRawFd>::from_raw_fd(result_fd) };
    // watchdog: `tick` holds the start time (ms since launch) of the running case, 0 = idle
    let t0 = std::time::Instant::now();
    let tick = Arc::new(AtomicU64::new(0));
    {
        let tick = tick.clone();
        std::thread::spawn(move || loop {
            std::thread::sleep(std::time::Duration::from_millis(100));
            let st = tick.load(Ordering::SeqCst);
            // claim the case atomically: if the main thread finished it in the meantime
            // (it resets `tick` with a compare-exchange too) nothing is written here
            if st != 0 && st != u64::MAX && (t0.elapsed().as_millis() as u64) > st + limit_ms
                && tick.compare_exchange(st, u64::MAX, Ordering::SeqCst, Ordering::SeqCst).is_ok() {
                // stdout is unbuffered below (we flush after every case), so this is the next line
                unsafe {
                    write(result_fd, b"HANG\n".as_ptr(), 5);
                    libc_exit(3)
                };
            }
        });
    }
    let harness_pid = std::process::id();
    let mut seen = 0usize;
    for (i, l) in std::io::BufReader::new(file).lines().enumerate() {
        if i % nshard != shard {
            continue;
        }
        seen += 1;
        if seen <= skip {
            continue;
        }
        let l = l.unwrap();
        let fields: Vec<&str> = l.split('\t').collect();
        let started = t0.elapsed().as_millis() as u64 + 1;
        tick.store(started, Ordering::SeqCst);
        let r = std::panic::catch_unwind(|| f(&fields));
        // The code under test forks (command substitution, pipelines). A forked child normally execs or exits, but
        // when the CHILD panics the unwinding ends here, in the child's copy of this loop: it must not go on with the
        // rest of the case file nor write a result (duplicate lines would misalign the whole shard).
        if std::process::id() != harness_pid {
            unsafe { libc_exit(101) }
        }
        if tick.compare_exchange(started, 0, Ordering::SeqCst, Ordering::SeqCst).is_err() {
            // the watchdog has claimed this case and is writing HANG: do not write a second answer
            loop {
                std::thread::sleep(std::time::Duration::from_millis(50));
            }
        }
        match r {
            Ok(s) => writeln!(out, "{}", s.replace('\n', "%0A")).unwrap(),
            Err(_) => writeln!(out, "PANIC").unwrap(),
        }
        out.flush().unwrap();
    }
}

extern "C" {
    fn _exit(code: i32) -> !;
    fn dup(fd: i32) -> i32;
    fn dup2(a: i32, b: i32) -> i32;
    fn close(fd: i32) -> i32;
    fn open(path: *const i8, flags: i32) -> i32;
    fn write(fd: i32, buf: *const u8, n: usize) -> isize;
}
unsafe fn libc_exit(code: i32) -> ! {
    _exit(code)
}
