//! Shared helpers for the per-property harness binaries: the wire codec
//! (same as ocaml/common/codec.ml), case-file iteration with optional
//! sharding, panic / hang containment.
use std::io::{BufRead, Write};

const HEX: &[u8; 16] = b"0123456789ABCDEF";

pub fn enc(s: &str) -> String {
    let mut o = String::with_capacity(s.len() + 8);
    for &b in s.as_bytes() {
        if (0x20..=0x7e).contains(&b) && b != b'%' && b != b'"' {
            o.push(b as char);
        } else {
            o.push('%');
            o.push(HEX[(b >> 4) as usize] as char);
            o.push(HEX[(b & 15) as usize] as char);
        }
    }
    o
}

fn hv(c: u8) -> u8 {
    match c {
        b'0'..=b'9' => c - 48,
        b'A'..=b'F' => c - 55,
        b'a'..=b'f' => c - 87,
        _ => panic!("bad hex"),
    }
}

pub fn dec(s: &str) -> String {
    let b = s.as_bytes();
    let mut o = Vec::with_capacity(b.len());
    let mut i = 0;
    while i < b.len() {
        if b[i] == b'%' {
            o.push(hv(b[i + 1]) * 16 + hv(b[i + 2]));
            i += 3;
        } else {
            o.push(b[i]);
            i += 1;
        }
    }
    String::from_utf8(o).expect("case file must hold valid UTF-8")
}

pub fn q(s: &str) -> String {
    format!("\"{}\"", enc(s))
}

pub fn qlist(v: &[String]) -> String {
    let items: Vec<String> = v.iter().map(|x| q(x)).collect();
    format!("[{}]", items.join(","))
}

pub fn tokens_str(t: &[(String, String)]) -> String {
    let items: Vec<String> = t.iter().map(|(a, b)| format!("({},{})", q(a), q(b))).collect();
    format!("[{}]", items.join(","))
}

/// Runs `f` on every line of the case file named by argv[1] (fields split at
/// TAB, still encoded), printing one output line per case. Panics inside `f`
/// become the line `PANIC`. argv[2], argv[3] (optional) = shard index, count.
pub fn main_loop<F: Fn(&[&str]) -> String + std::panic::RefUnwindSafe>(f: F) {
    let args: Vec<String> = std::env::args().collect();
    let file = std::fs::File::open(&args[1]).expect("case file");
    let (shard, nshard) = if args.len() >= 4 {
        (args[2].parse::<usize>().unwrap(), args[3].parse::<usize>().unwrap())
    } else {
        (0, 1)
    };
    std::panic::set_hook(Box::new(|_| {}));
    let out = std::io::stdout();
    let mut out = std::io::BufWriter::new(out.lock());
    for (i, l) in std::io::BufReader::new(file).lines().enumerate() {
        if i % nshard != shard {
            continue;
        }
        let l = l.unwrap();
        let fields: Vec<&str> = l.split('\t').collect();
        let r = std::panic::catch_unwind(|| f(&fields));
        match r {
            Ok(s) => writeln!(out, "{}", s).unwrap(),
            Err(_) => writeln!(out, "PANIC").unwrap(),
        }
    }
}
