#!/usr/bin/env python3
"""Rewrites Appendix B of DESIGN.md (which checks catch which seeded changes) from seeded/*/meta.json."""
import glob, json, os, re
VERIF = os.path.dirname(os.path.dirname(os.path.abspath(__file__)))
rows = []
for f in sorted(glob.glob(os.path.join(VERIF, "seeded", "*", "meta.json"))):
    m = json.load(open(f))
    sid = m["seed"]
    readme = os.path.join(os.path.dirname(f), "README.md")
    needs = ""
    if os.path.exists(readme):
        txt = open(readme).read()
        mm = re.search(r"(?is)(needs?|manifest|trigger)[^\n]*\n(.{0,300})", txt)
    what = m.get("what", "")
    target = m.get("breaks", "")
    tres, also = "not run", []
    for p, c in sorted(m.get("checks", {}).items()):
        if c.get("caught"):
            vs = c.get("violations", [""])
            kind = "failing input" if any("no-failing-input-found" not in v for v in vs) else "no-failing-input-found"
            if p == target:
                tres = "VIOLATION (%s)" % kind
            else:
                also.append(p)
        elif p == target:
            tres = "MISSED"
    if m.get("sweep"):
        tres += " [%s]" % m["sweep"]
    if not m.get("confirmed") and m.get("checks") == {}:
        tres = "change no longer breaks the property on the current tree"
    rows.append((sid, target, "yes" if m.get("confirmed") else "see note", tres, ", ".join(also), m.get("note", "")))
tab = ["| seeded change | target | confirmed | quick check of the target property | also caught by | note |", "|---|---|---|---|---|---|"]
for r in rows:
    tab.append("| %s | %s | %s | %s | %s | %s |" % r)
body = "\n".join(tab)
p = os.path.join(VERIF, "DESIGN.md")
s = open(p).read()
begin, end = "<!-- SEEDTABLE BEGIN -->", "<!-- SEEDTABLE END -->"
block = begin + "\n" + body + "\n" + end
if begin in s:
    s = s[:s.index(begin)] + block + s[s.index(end) + len(end):]
else:
    s += "\n---------------------------------------------------------------------------\n\n## Appendix B -- seeded changes and which checks catch them\n\n" \
         "Each change was written by a fresh sub-agent that saw only the property text and a scratch worktree, was confirmed by " \
         "`tools/seed.py` (builds, the unedited test suite passes, its demonstration fails with the change and passes without), and the " \
         "registered quick check was run against the worktree holding it (`CICADA_REPO=<worktree> ./check Cnn quick`). `note` records what " \
         "was done about a miss.\n\n" + block + "\n"
open(p, "w").write(s)
print(body)
