#!/usr/bin/env python3
"""srcpins: hash the bodies of the Rust functions that coq/theories/Model hand-transcribes.

The models are statement-by-statement transcriptions of specific functions of /repo, tied by
differential execution with a fixed budget.  `pins/functions.json` (committed) records, per
property, which functions are transcribed where, and the sha256 of each function's NORMALISED
text on the tree the transcription was made from.  `./check` recomputes the hashes for the
property being checked; a changed hash never raises an alarm by itself: it is recorded in the
evidence (`source_pins`) and makes the differential search of that run larger (see `check`).

Normalisation: the file is tokenised (line comments, nested block comments, string / raw string /
byte string literals, char literals vs lifetimes are recognised so that a brace inside them is not
a brace); comments and whitespace are dropped; the function is the token sequence from its
attributes-free `fn` keyword (with the qualifiers in front of it on the same item: pub, pub(crate),
const, async, unsafe, extern "C") to the matching closing brace, joined by single blanks.  So a
whitespace- or comment-only edit does not change the hash; any token change does.

Addressing: top-level `fn name` -> "name"; a method of `impl Type` / `impl Trait for Type` ->
"Type::name"; a fn inside `mod m { .. }` -> "m::name" (nested: "a::b::name").  Functions nested
inside a function body belong to that body.

usage:
  srcpins.py list <file.rs>                  names found in a file
  srcpins.py show <file.rs> <fn>             normalised text
  srcpins.py update [--repo DIR]             recompute every sha of pins/functions.json in place
  srcpins.py status [--repo DIR] [Cnn]       print changed / missing pins
"""
import hashlib
import json
import os
import sys

HERE = os.path.dirname(os.path.abspath(__file__))
VERIF = os.path.dirname(HERE)
PINS = os.path.join(VERIF, "pins", "functions.json")


class PinError(Exception):
    pass


# ------------------------------------------------------------------ tokeniser
def tokens(src):
    """[(kind, text)] with kind in id / str / chr / life / p ; comments and whitespace dropped"""
    out = []
    i, n = 0, len(src)
    while i < n:
        c = src[i]
        if c.isspace():
            i += 1
            continue
        if src.startswith("//", i):
            j = src.find("\n", i)
            i = n if j < 0 else j
            continue
        if src.startswith("/*", i):
            depth, i = 1, i + 2
            while i < n and depth:
                if src.startswith("/*", i):
                    depth += 1; i += 2
                elif src.startswith("*/", i):
                    depth -= 1; i += 2
                else:
                    i += 1
            continue
        # raw strings r"..", r#".."#, br#".."#
        j = i
        if c == "b" and j + 1 < n and src[j + 1] in "r\"'":
            j += 1
        if j < n and src[j] == "r" and j + 1 < n and src[j + 1] in "#\"":
            k = j + 1
            h = 0
            while k < n and src[k] == "#":
                h += 1; k += 1
            if k < n and src[k] == '"':
                end = src.find('"' + "#" * h, k + 1)
                if end < 0:
                    raise PinError("unterminated raw string at %d" % i)
                end += 1 + h
                out.append(("str", src[i:end]))
                i = end
                continue
        if j < n and src[j] == '"' and (j == i or c == "b"):
            k = j + 1
            while k < n and src[k] != '"':
                k += 2 if src[k] == "\\" else 1
            if k >= n:
                raise PinError("unterminated string at %d" % i)
            out.append(("str", src[i:k + 1]))
            i = k + 1
            continue
        if (c == "'") or (c == "b" and i + 1 < n and src[i + 1] == "'"):
            q = i + (1 if c == "b" else 0)
            # char literal: '\..' (closing quote is the first one after the escaped character) or 'x'; otherwise a
            # lifetime / loop label
            if q + 1 < n and src[q + 1] == "\\":
                k = src.find("'", q + 3)
                if k < 0:
                    raise PinError("unterminated char literal at %d" % i)
                out.append(("chr", src[i:k + 1]))
                i = k + 1
                continue
            if q + 2 < n and src[q + 2] == "'":
                out.append(("chr", src[i:q + 3]))
                i = q + 3
                continue
            # multi-byte char in quotes cannot happen here: python str indexes code points
            k = q + 1
            while k < n and (src[k].isalnum() or src[k] == "_"):
                k += 1
            out.append(("life", src[i:k]))
            i = k
            continue
        if c.isalnum() or c == "_":
            k = i + 1
            while k < n and (src[k].isalnum() or src[k] == "_"):
                k += 1
            out.append(("id", src[i:k]))
            i = k
            continue
        out.append(("p", c))
        i += 1
    return out


QUALS = {"pub", "const", "async", "unsafe", "extern", "default"}


def _match(toks, i, open_, close):
    """index of the token closing the bracket opened at toks[i]"""
    depth = 0
    for k in range(i, len(toks)):
        kind, t = toks[k]
        if kind == "p":
            if t == open_:
                depth += 1
            elif t == close:
                depth -= 1
                if depth == 0:
                    return k
    raise PinError("unbalanced %s" % open_)


def _impl_type(header):
    """type name of an impl header (tokens between `impl` and `{`)"""
    # drop generic argument lists
    flat, depth = [], 0
    for kind, t in header:
        if kind == "p" and t == "<":
            depth += 1
        elif kind == "p" and t == ">":
            depth = max(0, depth - 1)
        elif depth == 0:
            flat.append((kind, t))
    names = [t for kind, t in flat if kind == "id"]
    if "where" in names:
        names = names[:names.index("where")]
    if "for" in names:
        names = names[names.index("for") + 1:]
    names = [x for x in names if x not in ("dyn", "mut", "const", "unsafe")]
    if not names:
        raise PinError("impl header without a type")
    return names[-1]


def functions(src):
    """{address: normalised text} for every fn item of a Rust source text"""
    toks = tokens(src)
    out = {}

    def walk(lo, hi, prefix):
        i = lo
        while i < hi:
            kind, t = toks[i]
            if kind == "id" and t in ("mod", "impl", "trait") and (i == lo or toks[i - 1] != ("p", ".")):
                # find the opening brace (or `;` for `mod x;`)
                k = i + 1
                while k < hi and toks[k] not in (("p", "{"), ("p", ";")):
                    k += 1
                if k >= hi or toks[k] == ("p", ";"):
                    i = k + 1
                    continue
                end = _match(toks, k, "{", "}")
                if t == "mod":
                    name = toks[i + 1][1]
                elif t == "trait":
                    name = toks[i + 1][1]
                else:
                    name = _impl_type(toks[i + 1:k])
                walk(k + 1, end, prefix + [name])
                i = end + 1
                continue
            if kind == "id" and t == "fn" and i + 1 < hi and toks[i + 1][0] == "id":
                name = toks[i + 1][1]
                # body: first `{` outside parentheses / brackets after the name, or `;`
                k = i + 2
                pd = 0
                while k < hi:
                    kk, tt = toks[k]
                    if kk == "p" and tt in "([":
                        pd += 1
                    elif kk == "p" and tt in ")]":
                        pd -= 1
                    elif kk == "p" and pd == 0 and tt in "{;":
                        break
                    k += 1
                if k >= hi or toks[k] == ("p", ";"):
                    i = k + 1
                    continue
                end = _match(toks, k, "{", "}")
                # qualifiers in front
                s = i
                while s - 1 >= lo:
                    pk, pt = toks[s - 1]
                    if pk == "id" and pt in QUALS:
                        s -= 1
                    elif pk == "str" and s - 2 >= lo and toks[s - 2] == ("id", "extern"):
                        s -= 1
                    elif pk == "p" and pt == ")" and s - 4 >= lo and toks[s - 4] == ("id", "pub"):
                        s -= 3      # pub(crate)
                    else:
                        break
                addr = "::".join(prefix + [name])
                text = " ".join(t2 for _, t2 in toks[s:end + 1])
                if addr in out:
                    n2 = 2
                    while "%s#%d" % (addr, n2) in out:
                        n2 += 1
                    addr = "%s#%d" % (addr, n2)
                out[addr] = text
                i = end + 1
                continue
            i += 1

    walk(0, len(toks), [])
    return out


def sha(text):
    return hashlib.sha256(text.encode("utf-8")).hexdigest()[:16]


_cache = {}


def file_functions(repo, rel):
    key = (repo, rel)
    if key not in _cache:
        path = os.path.join(repo, rel)
        if not os.path.exists(path):
            _cache[key] = None
        else:
            _cache[key] = functions(open(path, encoding="utf-8").read())
    return _cache[key]


def load():
    with open(PINS) as f:
        return json.load(f)


def current(repo, entry):
    """sha of the function now, or None when the file / function is gone"""
    fns = file_functions(repo, entry["file"])
    if fns is None or entry["fn"] not in fns:
        return None
    return sha(fns[entry["fn"]])


def status(repo, prop, table=None):
    """{checked: n, changed: [{file, fn, model, was, now}]} for one property (now = None: missing)"""
    table = load() if table is None else table
    entries = table.get(prop, [])
    changed = []
    for e in entries:
        try:
            now = current(repo, e)
        except PinError as ex:          # a source the tokeniser cannot read counts as changed, never as an error
            now = "unreadable: %s" % ex
        if now != e["sha"]:
            changed.append({"file": e["file"], "fn": e["fn"], "model": e.get("model", ""), "was": e["sha"], "now": now})
    return {"checked": len(entries), "changed": changed}


def main(argv):
    repo = os.environ.get("CICADA_REPO", "/repo")
    if "--repo" in argv:
        k = argv.index("--repo")
        repo = argv[k + 1]
        argv = argv[:k] + argv[k + 2:]
    if len(argv) >= 2 and argv[0] == "list":
        for a, t in functions(open(argv[1]).read()).items():
            print(sha(t), a)
        return 0
    if len(argv) >= 3 and argv[0] == "show":
        print(functions(open(argv[1]).read())[argv[2]])
        return 0
    if argv and argv[0] == "update":
        table = load()
        missing = 0
        for prop, entries in table.items():
            for e in entries:
                now = current(repo, e)
                if now is None:
                    print("MISSING %s %s %s" % (prop, e["file"], e["fn"]))
                    missing += 1
                else:
                    e["sha"] = now
        with open(PINS, "w") as f:
            json.dump(table, f, indent=1, sort_keys=True)
            f.write("\n")
        return 1 if missing else 0
    if argv and argv[0] == "status":
        table = load()
        props = argv[1:] or sorted(table)
        for p in props:
            st = status(repo, p, table)
            print("%s: %d pinned, %d changed" % (p, st["checked"], len(st["changed"])))
            for c in st["changed"]:
                print("   %s %s (%s): %s -> %s" % (c["file"], c["fn"], c["model"], c["was"], c["now"]))
        return 0
    print(__doc__)
    return 2


if __name__ == "__main__":
    sys.exit(main(sys.argv[1:]))
