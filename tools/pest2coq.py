#!/usr/bin/env python3
"""pest2coq.py <grammar.pest> <ModuleName> <PREFIX> -> Coq text on stdout.

Translates a pest grammar (the subset of the pest meta-language cicada uses:
string / case-insensitive literals, char ranges, identifiers, ~ | * + ? ! &,
parentheses, rule modifiers _ @ $ !, // comments) into a value of
Cicada.Base.Peg.grammar. Rule ids are the 1-based positions of the rules in
the file; id 0 is EOI. Applies the one rewrite of pest_meta's optimizer that is observable in
non-atomic rules (unroller: e+ ==> e ~ e*). Refuses what Base/Peg.v does not model (COMMENT, PUSH /
PEEK / POP, repetition counts {n,m}, tags)."""
import re, sys

BUILTIN = {
    "ANY": "PAny", "SOI": "PSoi", "EOI": "PEoi",
    "NEWLINE": "(PAlt (PStr [10]) (PAlt (PStr [13; 10]) (PStr [13])))",
    "ASCII_DIGIT": "(PRange 48 57)",
    "ASCII_ALPHA_LOWER": "(PRange 97 122)", "ASCII_ALPHA_UPPER": "(PRange 65 90)",
    "ASCII_ALPHA": "(PAlt (PRange 97 122) (PRange 65 90))",
    "ASCII_ALPHANUMERIC": "(PAlt (PRange 48 57) (PAlt (PRange 97 122) (PRange 65 90)))",
}


def parse_grammar(src):
    src = re.sub(r"//[^\n]*", "", src)
    tok_re = re.compile(
        r"\s*(?:(?P<id>[A-Za-z_][A-Za-z0-9_]*)|(?P<str>\"(?:[^\"\\]|\\.)*\")|(?P<ins>\^\"(?:[^\"\\]|\\.)*\")"
        r"|(?P<chr>'(?:[^'\\]|\\.)')|(?P<dots>\.\.)|(?P<sym>[=_@\$\!\{\}\(\)\|\~\*\+\?&]))")
    toks, pos = [], 0
    while True:
        m = tok_re.match(src, pos)
        if not m:
            if src[pos:].strip():
                raise Exception("pest2coq: cannot read grammar at %r" % src[pos:pos + 30])
            break
        pos = m.end()
        toks.append((m.lastgroup, m.group(m.lastgroup)))
    i = [0]

    def peek():
        return toks[i[0]] if i[0] < len(toks) else (None, None)

    def eat(kind=None, val=None):
        k, v = toks[i[0]]
        if (kind and k != kind) or (val and v != val):
            raise Exception("pest2coq: expected %s %s, got %s %s" % (kind, val, k, v))
        i[0] += 1
        return v

    def unesc(s):
        body = s[1:-1]
        out, j = [], 0
        while j < len(body):
            c = body[j]
            if c == "\\":
                n = body[j + 1]
                mp = {"n": "\n", "r": "\r", "t": "\t", "\\": "\\", "\"": "\"", "'": "'", "0": "\0"}
                if n in mp:
                    out.append(mp[n]); j += 2
                elif n == "x":
                    out.append(chr(int(body[j + 2:j + 4], 16))); j += 4
                elif n == "u":
                    e = body.index("}", j)
                    out.append(chr(int(body[j + 3:e], 16))); j = e + 1
                else:
                    raise Exception("pest2coq: unknown escape \\%s" % n)
            else:
                out.append(c); j += 1
        return "".join(out)

    def expr():
        alts = [seq()]
        while peek() == ("sym", "|"):
            eat(); alts.append(seq())
        return alts[0] if len(alts) == 1 else ("choice", alts)

    def seq():
        items = [term()]
        while peek() == ("sym", "~"):
            eat(); items.append(term())
        return items[0] if len(items) == 1 else ("seq", items)

    def term():
        k, v = peek()
        if (k, v) == ("sym", "!"):
            eat(); return ("not", term())
        if (k, v) == ("sym", "&"):
            eat(); return ("and", term())
        if (k, v) == ("sym", "("):
            eat(); e = expr(); eat("sym", ")")
        elif k == "str":
            eat(); e = ("str", unesc(v))
        elif k == "ins":
            eat(); e = ("ins", unesc(v[1:]))
        elif k == "chr":
            eat(); lo = unesc(v); eat("dots"); hi = unesc(eat("chr")); e = ("range", lo, hi)
        elif k == "id":
            eat(); e = ("ref", v)
        else:
            raise Exception("pest2coq: unsupported term %s %s" % (k, v))
        while peek()[0] == "sym" and peek()[1] in ("*", "+", "?"):
            op = eat()
            e = {"*": ("rep", e), "+": ("rep1", e), "?": ("opt", e)}[op]
        if peek() == ("sym", "{"):
            # only a rule body may start with { here; a repetition count would follow a term directly
            pass
        return e

    rules = []
    while i[0] < len(toks):
        name = eat("id"); eat("sym", "=")
        mod = ""
        if peek()[0] == "sym" and peek()[1] in ("_", "@", "$", "!"):
            mod = eat()
        elif peek() == ("id", "_"):
            mod = eat()
        eat("sym", "{"); e = expr(); eat("sym", "}")
        rules.append((name, mod, e))
    return rules


def coq_str(s):
    return "[" + "; ".join(str(ord(c)) for c in s) + "]"


def emit(e, ids):
    k = e[0]
    if k == "str":
        return "(PStr %s)" % coq_str(e[1])
    if k == "ins":
        return "(PIns %s)" % coq_str(e[1])
    if k == "range":
        return "(PRange %d %d)" % (ord(e[1]), ord(e[2]))
    if k == "ref":
        if e[1] in ids:
            return "(PRef %d)" % ids[e[1]]
        if e[1] in BUILTIN:
            return BUILTIN[e[1]]
        raise Exception("pest2coq: unknown rule or unsupported built-in %s" % e[1])
    if k in ("seq", "choice"):
        c = "PSeq" if k == "seq" else "PAlt"
        items = [emit(x, ids) for x in e[1]]
        r = items[-1]
        for x in reversed(items[:-1]):
            r = "(%s %s %s)" % (c, x, r)
        return r
    if k == "rep1":
        # pest_meta::optimizer::unroller (always on without the grammar-extras feature):
        # e+  ==>  e ~ e*   (observable: the implicit skip after the first e is not rolled back)
        x = emit(e[1], ids)
        return "(PSeq %s (PRep %s))" % (x, x)
    if k in ("rep", "opt", "not", "and"):
        c = {"rep": "PRep", "opt": "POpt", "not": "PNot", "and": "PAnd"}[k]
        return "(%s %s)" % (c, emit(e[1], ids))
    raise Exception(k)


def translate(path, prefix):
    rules = parse_grammar(open(path).read())
    names = [r[0] for r in rules]
    if "COMMENT" in names:
        raise Exception("pest2coq: COMMENT is not modelled by Base/Peg.v")
    if len(set(names)) != len(names):
        raise Exception("pest2coq: duplicate rule")
    ids = {n: i + 1 for i, n in enumerate(names)}
    out = []
    out.append("(* GENERATED by tools/pest2coq.py from %s -- do not edit *)" % path.split("/src/")[-1])
    out.append("From Cicada Require Import Base.Chars Base.Peg.")
    out.append("Local Open Scope N_scope.")
    out.append("Definition %s_EOI : N := 0." % prefix)
    for n in names:
        out.append("Definition %s_%s : N := %d." % (prefix, n, ids[n]))
    modmap = {"": "MNormal", "_": "MSilent", "@": "MAtomic", "$": "MCompound", "!": "MNonAtomic"}
    out.append("Definition %s_rules : list (N * (modif * pexp)) := [" % prefix.lower())
    body = []
    for (n, mod, e) in rules:
        body.append("  (%d, (%s, %s))" % (ids[n], modmap[mod], emit(e, ids)))
    out.append(";\n".join(body))
    out.append("].")
    ws = "Some %d" % ids["WHITESPACE"] if "WHITESPACE" in ids else "None"
    out.append("Definition %s_grammar : grammar := mkGrammar %s_rules (%s) 0." % (prefix.lower(), prefix.lower(), ws))
    out.append("Definition %s_names : list (N * str) := [" % prefix.lower())
    nm = ["  (0, %s)" % coq_str("EOI")] + ["  (%d, %s)" % (ids[n], coq_str(n)) for n in names]
    out.append(";\n".join(nm))
    out.append("].")
    return "\n".join(out) + "\n"


def write_if_changed(path, text):
    import os
    os.makedirs(os.path.dirname(path), exist_ok=True)
    if not os.path.exists(path) or open(path).read() != text:
        open(path, "w").write(text)
        return True
    return False


if __name__ == "__main__":
    sys.stdout.write(translate(sys.argv[1], sys.argv[2]))
