#!/usr/bin/env python3
"""Rewrite the list of repairs in DESIGN.md (between the FIXLIST markers) from /repo's history."""
import os, re, subprocess
VERIF = os.path.dirname(os.path.dirname(os.path.abspath(__file__)))
log = subprocess.run(["git", "-C", os.environ.get("CICADA_REPO", "/repo"), "log", "--reverse", "--format=%h %s", "--grep", "^fix:"],
                     stdout=subprocess.PIPE).stdout.decode().strip().split("\n")
fixes = [l.split(" ", 1) for l in log if l]
body = ["<!-- FIXLIST BEGIN -->",
        "The %d repairs, in commit order (`git -C /repo log --oneline --grep '^fix:'`):" % len(fixes), ""]
body += ["* `%s` %s" % (h, s[len("fix:"):].strip()) for h, s in fixes]
body += ["<!-- FIXLIST END -->"]
p = os.path.join(VERIF, "DESIGN.md")
s = open(p).read()
s2 = re.sub(r"<!-- FIXLIST BEGIN -->.*?<!-- FIXLIST END -->", lambda m: "\n".join(body), s, flags=re.S)
open(p, "w").write(s2)
print(len(fixes), "fixes listed")
