#!/bin/sh
# ocaml/c11/drv.ml and ocaml/c12/drv.ml are copies of ocaml/c10/drv.ml (the extracted module name differs)
d=$(dirname "$0")/../ocaml
sed 's/open C10_model/open C11_model/' $d/c10/drv.ml > $d/c11/drv.ml
sed 's/open C10_model/open C12_model/' $d/c10/drv.ml > $d/c12/drv.ml
