#!/usr/bin/env python3
"""regex2coq: translate the regex literals of named Rust functions into values of
the Coq AST `re` (coq/theories/Base/Regex.v), wrapped in `rx` records that carry
the `^` / `$` anchors.

Supported syntax = exactly what the translated sites use: literals, escaped
punctuation, classes with ranges / negation / escapes, `.` (excludes \\n), greedy
`* + ?`, alternation, groups (capturing, `(?P<name>..)`, `(?:..)`; captures are
irrelevant for is_match), `^` at the very start and `$` at the very end, a leading `(?s)`
(then `.` is any character), `\\d` outside classes (= `Chr false nd_ranges`, the
generated file must import Gen.UnicodeNd).
Anything else raises SyntaxError (= the tie to the source is broken; ./check
reports a proof-obligation problem).

Literals are located by enclosing fn name + ordinal among the string literals of
its body; `format!` templates are evaluated with the values given by the site
description."""
import re as _re
import sys


class RxError(Exception):
    pass


# ------------------------------------------------------------------ Rust side
def fn_body(src, name):
    m = _re.search(r"^(?:pub(?:\([a-z]+\))? )?fn %s\s*\(" % _re.escape(name), src, _re.M)
    if not m:
        raise RxError("fn %s not found" % name)
    end = src.find("\n}\n", m.start())
    if end < 0:
        raise RxError("end of fn %s not found" % name)
    return src[m.start():end + 3]


LIT = _re.compile(r'r(#*)"(.*?)"\1|"((?:[^"\\]|\\.)*)"', _re.S)


def literals(body):
    """[(text, is_raw, preceded_by_format)] in source order (comments stripped first)."""
    body = _re.sub(r"//[^\n]*", "", body)
    out = []
    for m in LIT.finditer(body):
        if m.group(2) is not None and body[m.start()] == "r":
            txt, raw = m.group(2), True
        else:
            txt, raw = m.group(3), False
            txt = txt.replace('\\"', '"').replace("\\\\", "\\").replace("\\n", "\n")
        pre = body[max(0, m.start() - 12):m.start()]
        out.append((txt, raw, bool(_re.search(r"format!\(\s*$", pre))))
    return out


def eval_format(tpl, args):
    out = []
    i = 0
    k = 0
    while i < len(tpl):
        if tpl.startswith("{{", i):
            out.append("{"); i += 2
        elif tpl.startswith("}}", i):
            out.append("}"); i += 2
        elif tpl.startswith("{}", i):
            if k >= len(args):
                raise RxError("format! template has more holes than arguments: %r" % tpl)
            out.append(args[k]); k += 1; i += 2
        elif tpl[i] in "{}":
            raise RxError("unsupported format! hole in %r" % tpl)
        else:
            out.append(tpl[i]); i += 1
    return "".join(out)


# ------------------------------------------------------------------ regex side
ESCAPABLE = set("$(){}[]?.*+-^\\/|`'\"= ")


class P:
    def __init__(self, s):
        self.s, self.i = s, 0
        self.dotall = False

    def peek(self):
        return self.s[self.i] if self.i < len(self.s) else None

    def eat(self):
        c = self.s[self.i]
        self.i += 1
        return c

    def fail(self, why):
        raise RxError("regex %r at %d: %s" % (self.s, self.i, why))

    def parse(self):
        ab = ae = False
        # a leading (?s) flag group: `.` also matches \n
        if self.s.startswith("(?s)"):
            self.i = 4
            self.dotall = True
        if self.peek() == "^":
            self.eat(); ab = True
        end = len(self.s)
        # a trailing unescaped $ is the end anchor
        if end > self.i and self.s[end - 1] == "$":
            nbs = 0
            j = end - 2
            while j >= 0 and self.s[j] == "\\":
                nbs += 1; j -= 1
            if nbs % 2 == 0:
                ae = True
                self.s = self.s[:end - 1]
        r = self.alt()
        if self.i != len(self.s):
            self.fail("unbalanced )")
        if (ab or ae) and r[0] == "alt":
            self.fail("anchor with top-level alternation is outside the supported subset")
        return ab, r, ae

    def alt(self):
        items = [self.cat()]
        while self.peek() == "|":
            self.eat()
            items.append(self.cat())
        r = items[-1]
        for x in reversed(items[:-1]):
            r = ("alt", x, r)
        return r

    def cat(self):
        items = []
        while self.peek() is not None and self.peek() not in "|)":
            items.append(self.rep())
        if not items:
            return ("eps",)
        r = items[-1]
        for x in reversed(items[:-1]):
            r = ("cat", x, r)
        return r

    def rep(self):
        a = self.atom()
        while self.peek() is not None and self.peek() in "*+?":
            op = self.eat()
            if self.peek() == "?":
                self.fail("lazy quantifier is not in the yes/no subset")
            if op == "*":
                a = ("star", a)
            elif op == "+":
                a = ("cat", a, ("star", a))
            else:
                a = ("alt", a, ("eps",))
        return a

    def atom(self):
        c = self.eat()
        if c == "(":
            if self.s.startswith("?P<", self.i):
                j = self.s.index(">", self.i)
                self.i = j + 1
            elif self.s.startswith("?:", self.i):
                self.i += 2
            elif self.peek() == "?":
                self.fail("unsupported group flag")
            r = self.alt()
            if self.peek() != ")":
                self.fail("missing )")
            self.eat()
            return r
        if c == "[":
            return self.cls()
        if c == ".":
            return ("chr", True, [] if self.dotall else [(10, 10)])
        if c == "\\":
            if self.peek() == "d":        # Unicode Nd: the table of Gen/UnicodeNd.v (regex-syntax perl_decimal)
                self.eat()
                return ("nd",)
            return ("chr", False, [self.esc()])
        if c in "^$":
            self.fail("anchor in the middle of a pattern")
        if c in "{}*+?":
            self.fail("unsupported bare %r" % c)
        return ("chr", False, [(ord(c), ord(c))])

    def esc(self):
        if self.peek() is None:
            self.fail("dangling backslash")
        c = self.eat()
        if c == "n":
            return (10, 10)
        if c == "t":
            return (9, 9)
        if c in ESCAPABLE:
            return (ord(c), ord(c))
        self.fail("unsupported escape \\%s" % c)

    def cls(self):
        neg = False
        if self.peek() == "^":
            self.eat(); neg = True
        rs = []
        first = True
        while True:
            if self.peek() is None:
                self.fail("unterminated class")
            c = self.eat()
            if c == "]" and not first:
                break
            first = False
            if c == "[":
                self.fail("nested class")
            lo = self.esc()[0] if c == "\\" else ord(c)
            hi = lo
            if self.peek() == "-" and self.i + 1 < len(self.s) and self.s[self.i + 1] != "]":
                self.eat()
                d = self.eat()
                hi = self.esc()[0] if d == "\\" else ord(d)
                if hi < lo:
                    self.fail("reversed range")
            rs.append((lo, hi))
        return ("chr", neg, rs)


def coq(r):
    k = r[0]
    if k == "eps":
        return "Eps"
    if k == "chr":
        return "(Chr %s [%s])" % ("true" if r[1] else "false", "; ".join("(%d, %d)" % p for p in r[2]))
    if k == "nd":
        return "(Chr false nd_ranges)"
    if k == "cat":
        return "(Cat %s %s)" % (coq(r[1]), coq(r[2]))
    if k == "alt":
        return "(Alt %s %s)" % (coq(r[1]), coq(r[2]))
    if k == "star":
        return "(Star %s)" % coq(r[1])
    raise RxError("bad node")


def translate(pattern):
    ab, r, ae = P(pattern).parse()
    return "mkrx %s %s %s" % ("true" if ab else "false", coq(r), "true" if ae else "false")


def pattern_codes(p):
    return "[" + "; ".join(str(ord(c)) for c in p) + "]"


def site(src, fn, ordinal, fmt_args=None, expect_format=None):
    """the ordinal-th RAW string literal (r"..", r#".."#) of fn: the regex patterns are
    raw strings, messages are not, so a reworded diagnostic does not move the ordinals."""
    lits = [l for l in literals(fn_body(src, fn)) if l[1]]
    if ordinal >= len(lits):
        raise RxError("fn %s has only %d string literals (wanted #%d)" % (fn, len(lits), ordinal))
    txt, raw, isfmt = lits[ordinal]
    if expect_format is not None and expect_format != isfmt:
        raise RxError("literal #%d of %s: format!-ness changed" % (ordinal, fn))
    if isfmt:
        txt = eval_format(txt, fmt_args or [])
    return txt


def template_site(src, fn):
    """the unique non-raw format! literal of fn that contains a `$` (a replacement template)"""
    c = [l for l in literals(fn_body(src, fn)) if not l[1] and l[2] and "$" in l[0]]
    if len(c) != 1:
        raise RxError("fn %s: expected exactly one replacement template, found %d" % (fn, len(c)))
    return c[0][0]


if __name__ == "__main__":
    print(translate(sys.argv[1]))
