#!/usr/bin/env python3
"""Confirm a seeded change and run the registered checks against it.

  tools/seed.py confirm <worktree> <seed-id> <property> [<property> ...]

<worktree> is a scratch git worktree of /repo with the change applied and an
_out/ directory (patch.diff, demo.sh, README.md) written by its author.
Steps: (1) with the change: cargo build + cargo test (the flaky test_run_itself
is ignored), demo must FAIL; (2) without it (git stash): demo must PASS;
(3) ./check <property> quick with CICADA_REPO=<worktree> for each property;
(4) write /verif/seeded/<seed-id>/{patch.diff,demo.sh,README.md,meta.json}.
Nothing is ever applied to /repo itself here."""
import json, os, re, shutil, subprocess, sys, time

VERIF = os.path.dirname(os.path.dirname(os.path.abspath(__file__)))


def sh(cmd, cwd=None, env=None, timeout=5400):
    e = dict(os.environ)
    e["CARGO_NET_OFFLINE"] = "true"
    if env:
        e.update(env)
    p = subprocess.run(cmd, cwd=cwd, env=e, shell=isinstance(cmd, str), stdout=subprocess.PIPE,
                       stderr=subprocess.STDOUT, timeout=timeout)
    return p.returncode, p.stdout.decode("utf-8", "replace")


def tests_ok(wt):
    rc, out = sh("cargo test --offline 2>&1", cwd=wt)
    failed = re.findall(r"^test (\S+) \.\.\. FAILED", out, re.M)
    failed = [f for f in failed if "test_run_itself" not in f]
    compiled = "error: could not compile" not in out and "error[" not in out
    return compiled and not failed, failed, out[-1500:]


def rebase(wt):
    """Move a seeded worktree onto /repo's current HEAD (the seeds are judged against the current tree)."""
    rc, cur = sh("git diff -- src Cargo.toml", cwd=wt)
    open(os.path.join(wt, "_seed_cur.diff"), "w").write(cur)
    head = sh("git -C /repo rev-parse HEAD")[1].strip()
    sh("git apply -R _seed_cur.diff", cwd=wt)
    rc1, o1 = sh("git checkout -q --detach " + head, cwd=wt)
    rc2, o2 = sh("git apply --3way _seed_cur.diff", cwd=wt)
    if rc2 != 0:
        rc2, o2 = sh("git apply _seed_cur.diff", cwd=wt)
    print("rebase", wt, "->", head[:8], "ok" if rc2 == 0 else "FAILED: " + o2[-300:])
    sh("git reset -q", cwd=wt)
    os.remove(os.path.join(wt, "_seed_cur.diff"))
    return rc2 == 0


def sweep(ids):
    """Re-judge stored seeds against /repo's CURRENT HEAD: fresh worktree, apply seeded/<id>/patch.diff,
    confirm, run the checks recorded in meta.json, remove the worktree."""
    import glob
    base = "/tmp/mut"
    os.makedirs(base, exist_ok=True)
    ids = ids or sorted(os.path.basename(os.path.dirname(f)) for f in glob.glob(os.path.join(VERIF, "seeded", "*", "meta.json")))
    for sid in ids:
        d = os.path.join(VERIF, "seeded", sid)
        meta = json.load(open(os.path.join(d, "meta.json")))
        wt = os.path.join(base, "sweep-" + os.path.basename(VERIF) + "-" + sid)
        sh("git -C /repo worktree remove --force " + wt)
        rc, o = sh("git -C /repo worktree add --detach %s HEAD" % wt)
        rc, o = sh("git apply --3way %s" % os.path.join(d, "patch.diff"), cwd=wt)
        if rc != 0:
            rc, o = sh("git apply %s" % os.path.join(d, "patch.diff"), cwd=wt)
        sh("git reset -q", cwd=wt)
        if rc != 0:
            print(sid, "PATCH DOES NOT APPLY to HEAD:", o[-200:])
            meta["sweep"] = "patch does not apply to the current HEAD"
            json.dump(meta, open(os.path.join(d, "meta.json"), "w"), indent=1, ensure_ascii=False)
            sh("git -C /repo worktree remove --force " + wt)
            continue
        os.makedirs(os.path.join(wt, "_out"), exist_ok=True)
        for n in os.listdir(d):
            if n != "meta.json":
                shutil.copy(os.path.join(d, n), os.path.join(wt, "_out", n))
        note = meta.get("note")
        rc, o = sh([sys.executable, os.path.abspath(__file__), "confirm", wt, sid] + meta["properties"],
                   env={"CARGO_TARGET_DIR": os.path.join(base, "_sweep_target_" + os.path.basename(VERIF))}, timeout=20000)
        print(o.strip().split("\n")[-1])
        if note:
            m2 = json.load(open(os.path.join(d, "meta.json")))
            m2["note"] = note
            json.dump(m2, open(os.path.join(d, "meta.json"), "w"), indent=1, ensure_ascii=False)
        sh("git -C /repo worktree remove --force " + wt)
    return 0


def main():
    if len(sys.argv) >= 2 and sys.argv[1] == "sweep":
        return sweep(sys.argv[2:])
    if len(sys.argv) >= 3 and sys.argv[1] == "rebase":
        return 0 if all(rebase(os.path.abspath(w)) for w in sys.argv[2:]) else 1
    if len(sys.argv) < 5 or sys.argv[1] != "confirm":
        print(__doc__)
        return 2
    wt, sid, props = os.path.abspath(sys.argv[2]), sys.argv[3], sys.argv[4:]
    out_dir = os.path.join(wt, "_out")
    meta = {"seed": sid, "properties": props, "worktree": wt, "steps": {}}
    rc, o = sh("cargo build --offline 2>&1 | tail -3", cwd=wt)
    meta["steps"]["build_with_change"] = o.strip()[-300:]
    ok, failed, tail = tests_ok(wt)
    meta["steps"]["tests_with_change"] = {"pass": ok, "failed": failed}
    rc1, o1 = sh(["sh", "_out/demo.sh", os.path.join(os.environ.get("CARGO_TARGET_DIR", os.path.join(wt, "target")), "debug/cicada")], cwd=wt, timeout=600)
    meta["steps"]["demo_with_change"] = {"rc": rc1, "tail": o1[-400:]}
    # NOTE: `git stash` is shared by all worktrees of a repository -- never use it here.
    rc, cur = sh("git diff -- src Cargo.toml", cwd=wt)
    open(os.path.join(wt, "_seed_cur.diff"), "w").write(cur)
    meta["steps"]["worktree_diff_equals_patch"] = (cur.strip() == open(os.path.join(out_dir, "patch.diff")).read().strip()) \
        if os.path.exists(os.path.join(out_dir, "patch.diff")) else None
    sh("git apply -R _seed_cur.diff", cwd=wt)
    try:
        sh("cargo build --offline 2>&1 | tail -1", cwd=wt)
        rc0, o0 = sh(["sh", "_out/demo.sh", os.path.join(os.environ.get("CARGO_TARGET_DIR", os.path.join(wt, "target")), "debug/cicada")], cwd=wt, timeout=600)
        meta["steps"]["demo_without_change"] = {"rc": rc0, "tail": o0[-400:]}
    finally:
        sh("git apply _seed_cur.diff", cwd=wt)
        os.remove(os.path.join(wt, "_seed_cur.diff"))
    confirmed = ok and rc1 != 0 and rc0 == 0
    meta["confirmed"] = confirmed
    checks = {}
    if confirmed:
        for p in props:
            t = time.time()
            ev = os.path.join(VERIF, "evidence", p + ".json")
            saved = open(ev).read() if os.path.exists(ev) else None
            rc, o = sh(["./check", p, "quick"], cwd=VERIF, env={"CICADA_REPO": wt}, timeout=3000)
            if saved is not None:   # evidence must describe runs on the unchanged tree only
                open(ev, "w").write(saved)
            sh("git checkout -- coq/theories/Gen", cwd=VERIF)   # translator output of the changed tree
            viol = [l for l in o.split("\n") if l.startswith("VIOLATION")]
            checks[p] = {"exit": rc, "violations": viol[:5], "caught": rc == 1 and bool(viol), "wall_s": round(time.time() - t, 1)}
            for v in viol[:1]:
                m = re.search(r"replay=(\S+)", v)
                if m and os.path.exists(m.group(1)):
                    checks[p]["replay"] = json.load(open(m.group(1)))
    meta["checks"] = checks
    d = os.path.join(VERIF, "seeded", sid)
    os.makedirs(d, exist_ok=True)
    rc, diff = sh("git diff -- src Cargo.toml", cwd=wt)
    open(os.path.join(d, "patch.diff"), "w").write(diff)
    for n in ("demo.sh", "README.md"):
        if os.path.exists(os.path.join(out_dir, n)):
            shutil.copy(os.path.join(out_dir, n), os.path.join(d, n))
    for n in os.listdir(out_dir) if os.path.isdir(out_dir) else []:
        if n not in ("patch.diff", "demo.sh", "README.md") and os.path.isfile(os.path.join(out_dir, n)) \
                and os.path.getsize(os.path.join(out_dir, n)) < 200000:
            shutil.copy(os.path.join(out_dir, n), os.path.join(d, n))
    meta["breaks"] = props[0]
    meta["ran"] = "cargo build/test in a scratch worktree with and without the change; sh demo.sh <binary>; " \
                  "CICADA_REPO=<worktree> ./check <property> quick"
    json.dump(meta, open(os.path.join(d, "meta.json"), "w"), indent=1, ensure_ascii=False)
    print(json.dumps({k: meta[k] for k in ("seed", "confirmed")}), {p: (c["exit"], c["caught"]) for p, c in checks.items()})
    return 0


if __name__ == "__main__":
    sys.exit(main())
