#!/usr/bin/env python3
"""panicsites.py -- inventory of the potentially panicking sites of the Rust files C05 is anchored in.

A tokenizer-level scan (no rustc): comments, string / char literals, `#[cfg(test)]` / `#[test]` /
`#[cfg(cicada_verif)]` items are skipped; every remaining token is attributed to the innermost named
`fn` (prefixed by the `impl` type).  Per function the scanner lists

  index        expr[...]                       (out-of-range index)
  slice        expr[a..b] / [..b] / [a..]      (out-of-range or non-boundary slice)
  unwrap       .unwrap()          expect   .expect(..)
  regex-unwrap Regex::new(<pattern>).unwrap() / .expect(..) / RegexBuilder::new(..)..build().unwrap()
               (literal pattern, or a variable bound to a literal by a `let` above -> `literal`: true, text included)
  regex-new    Regex::new(<pattern>) whose Result is matched, not unwrapped (a changed pattern = changed matcher: hangs)
  regex-call   re_contains / find_first_group / replace_all with a raw-string pattern
  bound        `let [mut] v = <expr with .len() / .count()>`  -- the bounds that guards compare against
  cmp          `<  <=  >  >=` comparisons (the guards themselves; generics are told apart heuristically)
  macro        unreachable! panic! unimplemented! todo! assert! assert_eq! assert_ne!
  method       .remove( .insert( .swap_remove( .split_at( .split_off( .drain( .splice(
  div          `/` `%` `/=` `%=` whose divisor is not a non-zero numeric literal
  cast         `as usize|u8|u16|u32|u64|u128|isize|i8|i16|i32|i64|i128` (narrowing / sign-changing casts)
  arith        `+ - *` (and `+= -= *=`, unary `-`) outside wrapping_/checked_/saturating_ calls -- ONLY in the
               calculator and in functions whose name contains `brace` / `range` (elsewhere too noisy)

Output: canonical JSON, a sorted list of {file, function, kind, expr, ordinal} -- NO line numbers, so moving code
around does not change it; `expr` is the token text of the site without white space.

  tools/panicsites.py [--repo /repo] [--lines]        print the inventory (--lines adds line numbers, for reading)
  tools/panicsites.py --diff pins/C05-panicsites.json [--repo ..]   new / removed sites against a pinned inventory
"""
import json, os, re, sys

# file -> None (every function) or the list of function names (last path component) that C05 anchors
FILES = {
    "src/parsers/parser_line.rs": None,
    "src/types.rs": None,
    "src/shell.rs": None,
    "src/highlight.rs": None,
    "src/completers/mod.rs": ["escaped_word_start"],
    "src/core.rs": ["run_pipeline", "run_proc", "run_single_program", "try_run_calculator", "run_calculator",
                    "try_run_func", "run_command_line", "line_to_plain_tokens", "with_pipeline"],
    "src/tools.rs": None,
    "src/libs/re.rs": None,
    "src/calculator/mod.rs": None,
    "src/execute.rs": None,
    "src/scripting.rs": None,
}
ARITH_FILES = ("src/calculator/",)
ARITH_FN = re.compile(r"brace|range", re.I)

KEYWORDS = {"as", "break", "const", "continue", "crate", "else", "enum", "extern", "false", "fn", "for", "if", "impl",
            "in", "let", "loop", "match", "mod", "move", "mut", "pub", "ref", "return", "static", "struct", "super",
            "trait", "true", "type", "unsafe", "use", "where", "while", "dyn", "async", "await"}
PANIC_MACROS = {"unreachable", "panic", "unimplemented", "todo", "assert", "assert_eq", "assert_ne"}
METHODS = {"remove", "insert", "swap_remove", "split_at", "split_off", "drain", "splice"}
INT_TYPES = {"usize", "u8", "u16", "u32", "u64", "u128", "isize", "i8", "i16", "i32", "i64", "i128"}
PUNCT3 = ("<<=", ">>=", "...", "..=")
PUNCT2 = ("::", "->", "=>", "==", "!=", "<=", ">=", "&&", "||", "+=", "-=", "*=", "/=", "%=", "^=", "&=", "|=", "<<", ">>", "..")


class ScanError(Exception):
    pass


def lex(src):
    """-> list of (kind, text, line); kinds: id num str chr life p"""
    out = []
    i, n, line = 0, len(src), 1
    while i < n:
        c = src[i]
        if c == "\n":
            line += 1
            i += 1
        elif c in " \t\r":
            i += 1
        elif src.startswith("//", i):
            j = src.find("\n", i)
            i = n if j < 0 else j
        elif src.startswith("/*", i):
            depth, j = 1, i + 2
            while j < n and depth:
                if src.startswith("/*", j):
                    depth += 1
                    j += 2
                elif src.startswith("*/", j):
                    depth -= 1
                    j += 2
                else:
                    j += 1
            line += src.count("\n", i, j)
            i = j
        elif c == '"' or (c in "br" and re.match(r'b?r#*"|b"', src[i:i + 12])):
            m = re.match(r'(b?)(r(#*))?"', src[i:])
            if m.group(2) is not None:               # raw string
                close = '"' + m.group(3)
                j = src.find(close, i + m.end())
                if j < 0:
                    raise ScanError("unterminated raw string at line %d" % line)
                j += len(close)
            else:
                j = i + m.end()
                while j < n and src[j] != '"':
                    j += 2 if src[j] == "\\" else 1
                j += 1
            out.append(("str", src[i:j], line))
            line += src.count("\n", i, j)
            i = j
        elif c == "'" or (c == "b" and src.startswith("b'", i)):
            k = i + (2 if c == "b" else 1)
            m = re.match(r"(\\(x[0-9a-fA-F]{2}|u\{[0-9a-fA-F_]+\}|.)|[^\\'])'", src[k:], re.S)
            if m:
                out.append(("chr", src[i:k + m.end()], line))
                i = k + m.end()
            else:                                     # lifetime / label
                m = re.match(r"[A-Za-z_][A-Za-z0-9_]*", src[k:])
                if not m:
                    raise ScanError("stray quote at line %d" % line)
                out.append(("life", src[i:k + m.end()], line))
                i = k + m.end()
        elif c.isalpha() or c == "_":
            m = re.match(r"[A-Za-z_][A-Za-z0-9_]*", src[i:])
            out.append(("id", m.group(0), line))
            i += m.end()
        elif c.isdigit():
            m = re.match(r"0[xob][0-9a-fA-F_]+[a-z0-9]*|[0-9][0-9_]*(\.[0-9][0-9_]*)?([eE][+-]?[0-9]+)?[a-z0-9_]*", src[i:])
            out.append(("num", m.group(0), line))
            i += m.end()
        else:
            for p in PUNCT3 + PUNCT2:
                if src.startswith(p, i):
                    out.append(("p", p, line))
                    i += len(p)
                    break
            else:
                out.append(("p", c, line))
                i += 1
    return out


OPEN = {"(": ")", "[": "]", "{": "}"}
CLOSE = {")": "(", "]": "[", "}": "{"}


def match_close(toks, i):
    """index of the token closing the bracket opened at i"""
    depth = 0
    for j in range(i, len(toks)):
        t = toks[j][1] if toks[j][0] == "p" else None
        if t in OPEN:
            depth += 1
        elif t in CLOSE:
            depth -= 1
            if depth == 0:
                return j
    raise ScanError("unbalanced bracket opened at line %d" % toks[i][2])


def match_open(toks, i):
    depth = 0
    for j in range(i, -1, -1):
        t = toks[j][1] if toks[j][0] == "p" else None
        if t in CLOSE:
            depth += 1
        elif t in OPEN:
            depth -= 1
            if depth == 0:
                return j
    raise ScanError("unbalanced bracket closed at line %d" % toks[i][2])


def skip_items(toks):
    """drop the items under #[cfg(test)], #[test], #[cfg(cicada_verif)] (not under cfg(not(..)))"""
    out = []
    i, n = 0, len(toks)
    while i < n:
        if toks[i][1] == "#" and i + 1 < n and toks[i + 1][1] == "[":
            e = match_close(toks, i + 1)
            txt = "".join(t[1] for t in toks[i + 2:e])
            if txt in ("cfg(test)", "test", "cfg(cicada_verif)") or re.match(r"cfg\((all|any)\((test|cicada_verif)\b", txt):
                j = e + 1
                while j < n and toks[j][1] == "#" and toks[j + 1][1] == "[":     # further attributes
                    j = match_close(toks, j + 1) + 1
                while j < n:                                                      # the item: up to `;` or a closed `{}`
                    t = toks[j]
                    if t[0] == "p" and t[1] in ("(", "["):
                        j = match_close(toks, j) + 1
                    elif t[0] == "p" and t[1] == "{":
                        j = match_close(toks, j) + 1
                        break
                    elif t[0] == "p" and t[1] == ";":
                        j += 1
                        break
                    else:
                        j += 1
                i = j
                continue
            out.extend(toks[i:e + 1])
            i = e + 1
            continue
        out.append(toks[i])
        i += 1
    return out


def text(toks):
    """canonical text of a token run: no white space except between two word-like tokens"""
    s = ""
    prev = None
    for t in toks:
        if prev is not None and prev[0] in ("id", "num", "life") and t[0] in ("id", "num", "life", "str", "chr"):
            s += " "
        s += t[1]
        prev = t
    return s


def receiver_start(toks, i):
    """start index of the postfix expression that ends just before token i (i is `[` or `.`)"""
    j = i - 1
    while j >= 0:
        k, t = toks[j][0], toks[j][1]
        if k == "p" and t in (")", "]"):
            j = match_open(toks, j) - 1
            continue
        if k == "p" and t == "?":
            j -= 1
            continue
        if k == "p" and t == "!" and j > 0 and toks[j - 1][0] == "id":      # macro call name!( .. )
            j -= 1
            continue
        if k == "p" and t in (">", ">>"):                                   # turbofish  name::<T>(..)
            d, x = 0, j
            while x >= 0:
                tx = toks[x][1] if toks[x][0] == "p" else None
                if tx == ">":
                    d += 1
                elif tx == ">>":
                    d += 2
                elif tx == "<":
                    d -= 1
                    if d == 0:
                        break
                x -= 1
            if x > 0 and toks[x - 1][1] == "::":
                j = x - 2
                continue
            break
        if (k == "id" and t not in KEYWORDS) or k in ("num", "str") or (k == "id" and t in ("self", "Self", "crate", "super")):
            if j > 0 and toks[j - 1][0] == "p" and toks[j - 1][1] in (".", "::"):
                j -= 2
                continue
            return j
        break
    return j + 1


ARITH_OPS = ("+", "-", "*", "/", "%")


def arith_start(toks, i):
    """start of the arithmetic expression that ends just before token i"""
    s = receiver_start(toks, i)
    while s > 0 and toks[s - 1][0] == "p" and toks[s - 1][1] in ARITH_OPS and s - 1 > 0 \
            and (toks[s - 2][0] in ("id", "num") and toks[s - 2][1] not in KEYWORDS or toks[s - 2][1] in (")", "]")):
        s = receiver_start(toks, s - 1)
    return s


def primary_end(toks, j):
    n = len(toks)
    while j < n and toks[j][0] == "p" and toks[j][1] in ("-", "&", "*", "!"):
        j += 1
    if j >= n:
        return n - 1
    r = match_close(toks, j) if toks[j][0] == "p" and toks[j][1] in OPEN else j
    while r + 1 < n and toks[r + 1][0] == "p" and toks[r + 1][1] in (".", "::", "(", "[", "?"):
        if toks[r + 1][1] in ("(", "["):
            r = match_close(toks, r + 1)
        elif toks[r + 1][1] == "?":
            r += 1
        else:
            r += 2
    return r


def arith_end(toks, j):
    """end of the arithmetic expression starting at token j"""
    n = len(toks)
    r = primary_end(toks, j)
    while r + 1 < n and toks[r + 1][0] == "p" and toks[r + 1][1] in ARITH_OPS:
        r = primary_end(toks, r + 2)
    return r


def functions(toks):
    """yield (qualified name, body token start, body token end) for every fn with a body; nested fns are yielded
    too (their tokens are attributed to the innermost fn by scan())"""
    res = []
    n = len(toks)
    ctx = []          # (close index, prefix)
    i = 0
    while i < n:
        while ctx and i > ctx[-1][0]:
            ctx.pop()
        k, t = toks[i][0], toks[i][1]
        if k == "id" and t == "impl" and (i == 0 or toks[i - 1][1] not in ("(", ",", "->", ":", "<", "&", "dyn")):
            j = i + 1
            while j < n and not (toks[j][0] == "p" and toks[j][1] in ("{", ";")):
                j += 1
            if j < n and toks[j][1] == "{":
                hdr = toks[i + 1:j]
                names = [x[1] for x in hdr]
                if "for" in names:
                    hdr = hdr[names.index("for") + 1:]
                # strip a leading generic list
                d, clean = 0, []
                for x in hdr:
                    if x[1] == "<":
                        d += 1
                    elif x[1] == ">":
                        d -= 1
                    elif d == 0:
                        clean.append(x)
                ty = [x[1] for x in clean if x[0] == "id" and x[1] not in KEYWORDS]
                ctx.append((match_close(toks, j), ty[-1] if ty and "where" not in names else (ty[0] if ty else "?")))
                i = j + 1
                continue
        if k == "id" and t == "fn" and i + 1 < n and toks[i + 1][0] == "id":
            name = toks[i + 1][1]
            j = i + 2
            while j < n:
                if toks[j][0] == "p" and toks[j][1] in ("(", "["):
                    j = match_close(toks, j) + 1
                    continue
                if toks[j][0] == "p" and toks[j][1] in ("{", ";"):
                    break
                j += 1
            if j < n and toks[j][1] == "{":
                e = match_close(toks, j)
                q = "::".join([c[1] for c in ctx] + [name])
                res.append((q, j, e))
                ctx.append((e, name))
                i = j + 1
                continue
        i += 1
    return res


def scan_file(rel, src, only=None, with_lines=False):
    toks = skip_items(lex(src))
    fns = functions(toks)
    owner = [None] * len(toks)
    for q, b, e in fns:                     # later (inner) functions overwrite outer ones
        for x in range(b, e + 1):
            owner[x] = q
    arith_file = any(rel.startswith(p) for p in ARITH_FILES)
    sites = []

    def add(i, kind, expr, **kw):
        fn = owner[i]
        if fn is None:
            return
        if only is not None and fn.split("::")[-1] not in only and not any(p in only for p in fn.split("::")):
            return
        d = {"file": rel, "function": fn, "kind": kind, "expr": expr}
        d.update(kw)
        if with_lines:
            d["line"] = toks[i][2]
        sites.append(d)

    n = len(toks)
    gdepth = [0]
    for i, (k, t, _) in enumerate(toks):
        if owner[i] is None:
            gdepth[0] = 0
            continue
        if k == "p" and t in (";", "{", "}"):
            gdepth[0] = 0
        prev = toks[i - 1] if i else ("p", "", 0)
        nxt = toks[i + 1] if i + 1 < n else ("p", "", 0)
        if k == "p" and t == "[":
            is_index = (prev[0] == "id" and prev[1] not in KEYWORDS) or (prev[0] == "p" and prev[1] in (")", "]", "?")) \
                or (prev[0] == "id" and prev[1] == "self")
            if is_index:
                e = match_close(toks, i)
                inner = toks[i + 1:e]
                d, rng = 0, False
                for x in inner:
                    if x[0] == "p" and x[1] in OPEN:
                        d += 1
                    elif x[0] == "p" and x[1] in CLOSE:
                        d -= 1
                    elif d == 0 and x[0] == "p" and x[1] in ("..", "..="):
                        rng = True
                s = receiver_start(toks, i)
                add(i, "slice" if rng else "index", text(toks[s:e + 1]))
        elif k == "p" and t == "." and nxt[0] == "id" and i + 2 < n and toks[i + 2][1] == "(":
            m = nxt[1]
            if m in ("unwrap", "expect") or m in METHODS:
                e = match_close(toks, i + 2)
                s = receiver_start(toks, i)
                recv = toks[s:i]
                rtxt = text(recv)
                if m in ("unwrap", "expect") and re.match(r"(regex::)?Regex(Builder)?::new\(", rtxt):
                    pass                                    # listed by the Regex::new branch below (kind regex-*)
                elif m in ("unwrap", "expect"):
                    add(i, m, text(toks[s:e + 1]))
                else:
                    add(i, "method", text(toks[s:e + 1]))
        elif k == "id" and t in ("Regex", "RegexBuilder") and nxt[1] == "::" and i + 3 < n and toks[i + 2][1] == "new" \
                and toks[i + 3][1] == "(":
            a1 = match_close(toks, i + 3)
            args = toks[i + 4:a1]
            lit = len(args) == 1 and args[0][0] == "str"
            pat = text(args)
            if len(args) == 1 and args[0][0] == "id":       # a pattern held in a variable: the nearest `let v = "lit"` above
                fb = next((b for q, b, e in reversed(fns) if b <= i <= e), 0)
                for x in range(i, fb, -1):
                    if toks[x][0] == "str" and toks[x - 1][1] == "=" and toks[x - 2][1] == args[0][1] and toks[x + 1][1] == ";":
                        pat, lit = args[0][1] + "=" + toks[x][1], True
                        break
            # is the result unwrapped?  Regex::new(..).unwrap() / RegexBuilder::new(..)...build().unwrap()
            j = a1 + 1
            unwrapped = False
            while j + 2 < n and toks[j][1] == "." and toks[j + 1][0] == "id" and toks[j + 2][1] == "(":
                if toks[j + 1][1] in ("unwrap", "expect"):
                    unwrapped = True
                j = match_close(toks, j + 2) + 1
            add(i, "regex-unwrap" if unwrapped else "regex-new", "%s::new(%s)" % (t, pat), literal=bool(lit))
        elif k == "id" and t in ("re_contains", "find_first_group", "replace_all") and nxt[1] == "(" and prev[1] != "fn":
            a1 = match_close(toks, i + 1)
            lits = [x[1] for x in toks[i + 2:a1] if x[0] == "str" and x[1].startswith("r")]
            if lits:                                          # the raw-string pattern handed to the regex helper
                add(i, "regex-call", "%s(%s)" % (t, lits[0]), literal=True)
        elif k == "id" and t == "let":
            # bound bindings: `let [mut] v = <expr with .len() / .count()>;`  (the bounds guards compare against)
            j = i + 1
            if toks[j][1] == "mut":
                j += 1
            if toks[j][0] == "id" and toks[j + 1][1] == "=":
                e = j + 2
                while e < n and toks[e][1] != ";":
                    e = match_close(toks, e) + 1 if toks[e][1] in OPEN else e + 1
                rhs = toks[j + 2:e]
                names = [x[1] for x in rhs]
                if any(names[x] in ("len", "count") and names[x - 1] == "." for x in range(1, len(names))) and "{" not in names:
                    add(i, "bound", text(toks[j:e]))
        elif k == "p" and t in ("<", ">", "<=", ">=", ">>"):
            pu = prev[0] == "id" and (prev[1][:1].isupper() or prev[1] in ("fn", "impl"))
            if t == "<" and (prev[1] == "::" or pu):
                gdepth[0] += 1
            elif t == ">" and gdepth[0] > 0:
                gdepth[0] -= 1
            elif t == ">>" and gdepth[0] > 0:
                gdepth[0] = max(0, gdepth[0] - 2)
            elif t != ">>":
                s = arith_start(toks, i)
                r_end = arith_end(toks, i + 1)
                add(i, "cmp", text(toks[s:r_end + 1]))
        elif k == "id" and t in PANIC_MACROS and nxt[1] == "!" and i + 2 < n and toks[i + 2][1] in OPEN:
            e = match_close(toks, i + 2)
            add(i, "macro", text(toks[i:e + 1]))
        elif k == "p" and t in ("/", "%", "/=", "%="):
            lit_nonzero = nxt[0] == "num" and re.search(r"[1-9]", re.sub(r"[a-z_].*$", "", nxt[1]) or "0") is not None
            if not lit_nonzero:
                # operand texts: left = postfix expression before, right = the next primary
                s = receiver_start(toks, i)
                j = i + 1
                if j < n and toks[j][1] in ("-", "&", "*", "!"):
                    j += 1
                if j < n and toks[j][1] in OPEN:
                    r_end = match_close(toks, j)
                else:
                    r_end = j
                    while r_end + 1 < n and (toks[r_end + 1][1] in (".", "::") or toks[r_end + 1][1] in ("(", "[")
                                             or (toks[r_end][1] in (".", "::"))):
                        if toks[r_end + 1][1] in ("(", "["):
                            r_end = match_close(toks, r_end + 1)
                        else:
                            r_end += 1
                add(i, "div", text(toks[s:r_end + 1]))
        elif k == "id" and t == "as" and nxt[0] == "id" and nxt[1] in INT_TYPES:
            s = receiver_start(toks, i)
            add(i, "cast", text(toks[s:i + 2]))
        elif k == "p" and t in ("+", "-", "*", "+=", "-=", "*=") and (arith_file or ARITH_FN.search(owner[i].split("::")[-1])):
            unary = not ((prev[0] in ("id", "num", "str", "chr") and prev[1] not in KEYWORDS) or (prev[0] == "p" and prev[1] in (")", "]", "?")))
            if t == "*" and unary:
                continue                        # dereference
            if t == "+" and unary:
                continue
            if prev[0] == "str" or nxt[0] == "str":
                continue                        # string concatenation
            s = receiver_start(toks, i) if not unary else i
            j = i + 1
            if j < n and toks[j][1] in ("-", "&", "*", "!"):
                j += 1
            r_end = match_close(toks, j) if j < n and toks[j][1] in OPEN else j
            while r_end + 1 < n and toks[r_end + 1][1] in (".", "::", "(", "["):
                if toks[r_end + 1][1] in ("(", "["):
                    r_end = match_close(toks, r_end + 1)
                else:
                    r_end += 2
            add(i, "arith", ("neg:" if unary else "") + text(toks[s:r_end + 1]))
    return sites


def inventory(repo, with_lines=False):
    """-> sorted list of site dicts with ordinals; raises ScanError when an anchored file is missing / unreadable"""
    out = []
    for rel, only in FILES.items():
        p = os.path.join(repo, rel)
        if not os.path.exists(p):
            raise ScanError("anchored source file missing: %s" % rel)
        out += scan_file(rel, open(p, encoding="utf-8").read(), only, with_lines)
    seen = {}
    for d in out:                       # ordinal in source order among equal (file, function, kind, expr)
        k = (d["file"], d["function"], d["kind"], d["expr"])
        d["ordinal"] = seen.get(k, 0)
        seen[k] = d["ordinal"] + 1
    out.sort(key=key)
    return out


def key(d):
    return (d["file"], d["function"], d["kind"], d["expr"], d["ordinal"])


def diff(pinned, current):
    """-> (new, removed): lists of site dicts"""
    pk = {key(d): d for d in pinned}
    ck = {key(d): d for d in current}
    return [ck[k] for k in sorted(ck) if k not in pk], [pk[k] for k in sorted(pk) if k not in ck]


def dumps(sites):
    return json.dumps(sites, indent=1, ensure_ascii=False, sort_keys=True) + "\n"


def main(argv):
    repo = os.environ.get("CICADA_REPO", "/repo")
    if "--repo" in argv:
        repo = argv[argv.index("--repo") + 1]
    inv = inventory(repo, with_lines="--lines" in argv)
    if "--diff" in argv:
        pinned = json.load(open(argv[argv.index("--diff") + 1]))
        new, removed = diff(pinned, inv)
        for d in new:
            print("NEW     %s %s %s %s #%d" % key(d))
        for d in removed:
            print("REMOVED %s %s %s %s #%d" % key(d))
        return 1 if new else 0
    sys.stdout.write(dumps(inv))
    return 0


if __name__ == "__main__":
    sys.exit(main(sys.argv[1:]))
