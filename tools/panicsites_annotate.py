#!/usr/bin/env python3
"""panicsites_annotate.py -- (re)writes pins/C05-panicsites.json: the inventory of tools/panicsites.py for the
current /repo, each site with a `disposition`, filled by the ordered rules below (first match wins; written by reading
the code, round 9).  Dispositions already present in the pin file are kept (hand edits survive), unless --reset.

  modelled:<Coq definition that carries the explicit Panic>
  guarded:<why the surrounding code makes the site safe>
  benign-literal-regex
  exercised-only:<layer of drive/c05.py that reaches the function; no argument made>
"""
import json, os, re, sys
sys.path.insert(0, os.path.dirname(os.path.abspath(__file__)))
import panicsites as P

PIN = os.path.join(os.path.dirname(os.path.dirname(os.path.abspath(__file__))), "pins", "C05-panicsites.json")

HASH = "guarded:HashMap / HashSet insert / remove cannot panic"
CAPS = "guarded:the group is not optional in its pattern, so it participates in every match (captures() returned Some)"
# (file regex, function regex, kind regex, expr regex, ordinal or None, disposition)
RULES = [
    # ---------------------------------------------------------------- highlight.rs (Model/Highlight.v)
    ("highlight", "find_token_range_heuristic", "slice", r"^line\[start_byte\.\.\]$", None, "modelled:Model/Highlight.v find_token_range, Panic 1"),
    ("highlight", "find_token_range_heuristic", "slice", r"^line\[token_start_byte\.\.\]$", None, "modelled:Model/Highlight.v find_token_range, Panic 2"),
    ("highlight", "find_token_range_heuristic", "slice", r"^search_area\[current_search_offset\.\.\]$", 0, "modelled:Model/Highlight.v find_token_range, Panic 3"),
    ("highlight", "find_token_range_heuristic", "slice", r"^search_area\[current_search_offset\.\.\]$", 1, "modelled:Model/Highlight.v find_token_range, Panic 4"),
    ("highlight", "find_token_range_heuristic", "slice", r"^search_area\[sep\.len\(\)\.\.\]$", None, "modelled:Model/Highlight.v find_token_range, Panic 5"),
    ("highlight", "find_token_range_heuristic", "arith", "", None,
     "guarded:usize sums of byte lengths of pieces of the line, bounded by 3 * line.len() (ASSUMES: no usize overflow); the same sums over nat in Model/Highlight.v find_token_range"),
    ("highlight", "highlight$", "cmp", "", None, "modelled:Model/Highlight.v hl_loop / highlight_tokens (gap and tail tests; C05_highlight_total, C05_slice_exact)"),
    ("highlight", "", "method", r"\.insert\(", None, HASH),
    # ---------------------------------------------------------------- completers/mod.rs (Model/WordStart.v)
    ("completers", "escaped_word_start", "cmp", "", None, "modelled:Model/WordStart.v ws_step (extra-bytes accounting; C05_word_start_total)"),
    # ---------------------------------------------------------------- parser_line.rs
    ("parser_line", "parse_line", "unwrap", r"nth\(i\+1\)\.unwrap", 0, "modelled:Model/FirstWord.v rparen_guarded, Panic 252 (C05_tokenizer_lookups)"),
    ("parser_line", "parse_line", "unwrap", r"nth\(i\+1\)\.unwrap", 1, "modelled:Model/FirstWord.v lookahead_guarded, Panic 289 (C05_tokenizer_lookups)"),
    ("parser_line", "parse_line", "index", r"result\[result\.len\(\)-1\]", None, "modelled:Model/FirstWord.v last_guarded, Panic 461 (C05_tokenizer_lookups)"),
    ("parser_line", "parse_line", "bound", "token_last", None, "modelled:Model/FirstWord.v last_guarded, Panic 461 (same site, seen as a binding)"),
    ("parser_line", "parse_line", "bound|cmp", "count_chars", None,
     "modelled:the guard `i + 1 < count_chars` with count_chars = number of chars is the hypothesis of Model/FirstWord.v lookahead_guarded / rparen_guarded never panicking (C05_tokenizer_lookups)"),
    ("parser_line", "trim_cmd", "slice", "", None,
     "guarded:trimmed = t.trim_end() is a prefix of t, so trimmed.len() is a char boundary <= t.len(); Model/Cmds.v trim_cmd is structural, compared on every L1a line"),
    ("parser_line", "trim_cmd", "cmp|bound", "", None, "guarded:no indexing depends on it beyond the prefix slice above; Model/Cmds.v trim_cmd, L1a"),
    ("parser_line", "trim_cmd", "div", "", None, "guarded:literal divisor"),
    ("parser_line", "tokens_to_redirections", "unwrap", r"caps\.get\(", None,
     "guarded:groups 1..3 of ptn1 / 1..2 of ptn2 are not optional, so get(k) is Some after captures() matched; patterns tied by Gen/ParserLineRegexes.v; Model/Redirect.v is structural"),
    ("parser_line", "tokens_to_redirections", "regex-new|regex-call", "", None, "benign-literal-regex"),
    ("parser_line", "unquote", "method", r"remove\(0\)", None, "guarded:text.starts_with(c) for a 1-byte quote c, so new_str is non-empty and byte 0 is a whole char"),
    ("parser_line", "line_to_cmds|tokens_to_line", "bound", "", None, "guarded:used as loop bound / separator test only (no indexing); Model/Cmds.v line_to_cmds compared on every L1a line"),
    ("parser_line", "", "regex-call", "", None, "benign-literal-regex"),
    # ---------------------------------------------------------------- types.rs
    ("types", "from_tokens", "method", r"tokens_new\.remove\(idx\)", None,
     "guarded:idx comes from position() (first remove) or is tested by `len > idx` with len tracking tokens_new.len() (second remove); transcribed in Model/Redirect.v from_tokens (total list operations, fuel), theorem C05_from_tokens_total, L1d every token list <= 4"),
    ("types", "from_tokens", "cmp|bound", "", None, "guarded:these ARE the guards of the remove sites of from_tokens (len tracks the vector length); Model/Redirect.v from_tokens, L1d"),
    ("types", "has_redirect_from|has_here_string", "unwrap", "", None, "guarded:`is_some() &&` short-circuits before the unwrap"),
    ("types", "Command::is_builtin", "index", "", None,
     "modelled:Model/FirstWord.v first_word_lookups (FwPanicShell on a wordless command); C05_full: from_tokens rejects wordless commands, so no planned command reaches it"),
    ("types", "is_single_and_builtin", "index", "", None, "guarded:`self.commands.len() == 1 &&` short-circuits; Model/FirstWord.v first_word_lookups"),
    ("types", "runs_in_shell", "index", "", None, "guarded:is_single_and_builtin() (len == 1) short-circuits"),
    ("types", "drain_env_tokens", "index", r"cap\[", None, CAPS),
    ("types", "drain_env_tokens", "method", r"insert", None, HASH),
    ("types", "drain_env_tokens", "method", r"drain", None, "guarded:n counts a prefix of tokens (incremented once per iterated element), so 0..n is in range; Model/Redirect.v drain_envs"),
    ("types", "drain_env_tokens", "cmp", "", None, "guarded:only skips an empty drain"),
    ("types", "from_line", "index", r"tokens\[len-1\]", None, "guarded:`len > 1 &&` short-circuits (len = tokens.len()); Model/Redirect.v plan_tokens"),
    ("types", "from_line", "cmp|bound", "", None, "guarded:these ARE the guard of tokens[len-1]; Model/Redirect.v plan_tokens, L1a"),
    ("types", "with_pipeline", "cmp", "", None, "guarded:no indexing depends on it"),
    ("types", "", "regex-unwrap|regex-call|regex-new", "", None, "benign-literal-regex"),
    # ---------------------------------------------------------------- core.rs
    ("core", "try_run_func", "index", r"cl\.commands\[0\]", None, "guarded:`if cl.is_empty() { return None }` above; Model/FirstWord.v first_word_lookups"),
    ("core", "try_run_func", "index", r"command\.tokens\[0\]", None,
     "modelled:Model/FirstWord.v first_word_lookups, FwPanicShell (the shell-side index of a wordless first command); C05_full"),
    ("core", "run_pipeline", "bound", "", None, "guarded:`if length == 0 { return }` precedes `0..length - 1`; exercised L2"),
    ("core", "run_pipeline", "cmp", "", None, "guarded:pid test, no indexing"),
    ("core", "run_single_program", "index", r"pipes\[", None,
     "guarded:pipes.len() = length - 1 and every use is under `idx_cmd < pipes_count` / `idx_cmd > 0` / a range ending at pipes_count; exercised-only L2 (forks)"),
    ("core", "run_single_program", "cmp|bound", "", None, "guarded:these ARE the guards of pipes[..]; exercised-only L2"),
    ("core", "run_single_program", "index|unwrap", r"commands", None,
     "guarded:run_pipeline calls it for idx_cmd in 0..length only (length = cl.commands.len()); exercised-only L2"),
    ("core", "run_single_program", "index", r"cmd\.tokens\[0\]", None,
     "exercised-only:L2 (in the forked child; safe as long as from_tokens rejects wordless commands = C05_full, but the child path itself is not modelled)"),
    ("core", "run_single_program", "expect", "CString", None,
     "exercised-only:L2 (panics in the CHILD if an argument / variable holds a NUL byte; script text with NUL is not generated)"),
    ("core", "run_calculator", "unwrap", "", None, "exercised-only:L1b misc op (try_run_calculator) + L2 arithmetic lines; a successful pest parse yields the top pair"),
    # ---------------------------------------------------------------- calculator
    ("calculator", "", "macro", "unreachable", None, "exercised-only:L1b misc + L2 arithmetic corpus (rule sets of the pest grammar: Gen/CalcGrammar.v is C19's)"),
    ("calculator", "eval_int", "arith", r"W\(", None, "guarded:std::num::Wrapping arithmetic never panics"),
    ("calculator", "eval_int", "div", r"W\(lhs\)/W\(rhs\)", None, "guarded:`rhs == 0` takes the other branch; Wrapping division wraps for i64::MIN / -1 (L2 limit lines)"),
    ("calculator", "eval_int", "div|cast", r"f64", None, "guarded:float division and float-to-int `as` (saturating) never panic"),
    ("calculator", "eval_int", "cast", r"rhs as u64", None, "guarded:under `rhs < 0` -> Err, so rhs >= 0"),
    ("calculator", "eval_int|wrapping_pow", "cmp", "", None, "guarded:no indexing; loop bound of wrapping_pow halves exp (terminates)"),
    ("calculator", "eval_float", "arith|div", "", None, "guarded:f64 arithmetic never panics"),
    ("calculator", "eval_float", "unwrap", "", None, "exercised-only:L2 arithmetic lines with a dot (the grammar's num always parses as f64: digits and dots... not argued)"),
    # ---------------------------------------------------------------- shell.rs
    ("shell", "^expand_alias", "method", r"tokens\.remove\(\*i\)", None, "modelled:Model/AliasSites.v vec_remove, Panic 835 (C05_alias_total)"),
    ("shell", "^expand_alias", "method", r"tokens\.insert\(\*i,", None, "modelled:Model/AliasSites.v vec_insert, Panic 837 (C05_alias_total)"),
    ("shell", "Shell::(set_env|remove_env|set_func|remove_func|add_alias|remove_alias|mark_job_member|remove_pid_from_job)", "method",
     r"(envs|funcs|aliases|pids_stopped|self\.jobs)\.(insert|remove)\(", None, HASH),
    ("shell", "Shell::insert_job", "method", "", None, HASH),
    ("shell", "Shell::remove_pid_from_job", "method", r"pids\.remove", None, "guarded:i_pid comes from position() on the same vector"),
    ("shell", "Shell::new", "method", "split_at", None, "guarded:a hyphenated UUID is 36 ASCII characters"),
    ("shell", "Shell::", "cmp", "65535", None, "guarded:job-number search bound, no indexing"),
    ("shell", "expand_one_env|do_command_substitution_for_dot", "index", r"cap\[", None, CAPS),
    ("shell", "expand_brace_range", "index", r"caps\[[12]\]", None, CAPS),
    ("shell", "expand_brace_range", "index", r"caps\[4\]", None, "exercised-only:L1a B14 (group 4 is optional: the code must test it first -- not argued here; C12 owns brace ranges)"),
    ("shell", "expand_home|do_command_substitution_for_dollar", "index", r'caps\["', None, CAPS),
    ("shell", "env_ref_at", "slice", "", None, "guarded:n = length of a take_while prefix of the same char slice; s[1..] under `Some(&'{')` = s.first()"),
    ("shell", "expand_env_once", "index", r"chars\[i\]", None, "guarded:under `while i < chars.len()`"),
    ("shell", "expand_env_once", "slice", "", None, "guarded:i < chars.len(), so i + 1 <= len is a valid start of a (possibly empty) slice"),
    ("shell", "expand_env_once", "cmp", "", None, "guarded:this IS the loop guard of chars[i]"),
    ("shell", "brace_getitem|brace_getgroup", "method", r"remove\(0\)", None,
     "exercised-only:L1a B14 ({ } , \\ in the alphabet): String::remove(0) needs a non-empty string; the callers look at ss.chars().next() first -- not modelled (C12's)"),
    ("shell", "brace|expand_glob", "method|arith|index|slice|cmp|unwrap", "", None, "exercised-only:L1a B14 + L2 ({a,b} {1..3} words); the brace / glob passes are C12's models, not C05's"),
    ("shell", "do_expansion", "index", r"tokens\[[01]\]", None, "guarded:`tokens.len() >= 2 &&` short-circuits"),
    ("shell", "do_expansion", "cmp", "", None, "guarded:this IS the guard of tokens[0] / tokens[1]"),
    ("shell", "expand_home|expand_env|do_command_substitution", "index", r"tokens\[\*i\]", None,
     "guarded:i is an index recorded while enumerating the same vector, whose length is unchanged in the pass; exercised L1a"),
    ("shell", "do_command_substitution", "method", r"buff\.insert", None, HASH),
    ("shell", "", "regex-unwrap|regex-new|regex-call", "", None, "benign-literal-regex"),
    # ---------------------------------------------------------------- tools.rs
    ("tools", "get_hostname", "cast", "", None, "exercised-only:L3 (prompt); pointer arithmetic inside a 255-byte buffer, not input driven"),
    ("tools", "^unquote", "index", "", None, "exercised-only:L2 (not argued)"),
    ("tools", "split_into_fields_n", "slice", "", None, "guarded:i comes from char_indices() of rest, so i and i + c.len_utf8() are char boundaries <= rest.len()"),
    ("tools", "split_into_fields", "index", "IFS", None, "exercised-only:L2 (HashMap index panics on a missing key; the code tests contains_key first -- not argued)"),
    ("tools", "split_into_fields", "slice", r"\[\.\.\]$", None, "guarded:full-range slice"),
    ("tools", "", "cmp", "", None, "guarded:no indexing depends on it"),
    ("tools", "", "regex-unwrap|regex-call|regex-new", "", None, "benign-literal-regex"),
    # ---------------------------------------------------------------- libs/re.rs
    ("libs/re", "replace_all", "regex-unwrap", "", None,
     "exercised-only:L1a/L2 (pattern is the caller's; every caller in the anchored files passes a literal = the regex-call sites)"),
    ("libs/re", "", "regex-new", "", None, "guarded:the Result is matched, an invalid pattern returns false / empty"),
    # ---------------------------------------------------------------- execute.rs / scripting.rs
    ("execute", "drain_env_tokens", "index", r"cap\[", None, CAPS),
    ("execute", "drain_env_tokens", "method", "insert", None, HASH),
    ("execute", "drain_env_tokens", "method", "drain", None, "guarded:n counts a prefix of tokens"),
    ("execute", "", "cmp", "", None, "guarded:only skips an empty drain"),
    ("execute", "", "regex-unwrap|regex-call|regex-new", "", None, "benign-literal-regex"),
    ("scripting", "", "regex-unwrap|regex-call|regex-new", "", None, "benign-literal-regex"),
    ("scripting", "expand_args_for_single_token", "index", r"cap\[", None, CAPS),
    ("scripting", "expand_args_for_single_token", "index", r"args\[arg_idx\]", None, "guarded:under `arg_idx < args.len()`"),
    ("scripting", "expand_args_for_single_token", "cmp", "", None, "guarded:this IS the guard of args[arg_idx]"),
    ("scripting", "run_script", "index", r"cap\[1\]", None, CAPS),
    ("scripting", "", "", "", None, "exercised-only:L2 script mode (every L2 line also runs as a two-line script + sentinel); scripting is C14's model, not C05's"),
]
FALLBACK = {"src/shell.rs": "exercised-only:L1a (real do_expansion in the `line` op) + L2",
            "src/tools.rs": "exercised-only:L1b misc + L2", "src/core.rs": "exercised-only:L2",
            "src/execute.rs": "exercised-only:L2", "src/types.rs": "exercised-only:L1a + L1d",
            "src/parsers/parser_line.rs": "exercised-only:L1a", "src/highlight.rs": "exercised-only:L1b hl",
            "src/completers/mod.rs": "exercised-only:L1b ws", "src/calculator/mod.rs": "exercised-only:L1b misc + L2",
            "src/libs/re.rs": "exercised-only:L1a + L2", "src/scripting.rs": "exercised-only:L2 script mode"}


def dispose(d):
    if d["kind"].startswith("regex") and d.get("literal") and d["kind"] != "regex-new":
        return "benign-literal-regex"
    for f, fn, kind, ex, ordn, disp in RULES:
        if f in d["file"] and re.search(fn, d["function"]) and re.fullmatch(kind or ".*", d["kind"]) \
                and re.search(ex, d["expr"]) and (ordn is None or ordn == d["ordinal"]):
            return disp
    return FALLBACK[d["file"]]


def main(argv):
    repo = os.environ.get("CICADA_REPO", "/repo")
    inv = P.inventory(repo)
    old = {}
    if os.path.exists(PIN) and "--reset" not in argv:
        old = {P.key(d): d.get("disposition") for d in json.load(open(PIN))}
    for d in inv:
        d["disposition"] = old.get(P.key(d)) or dispose(d)
    os.makedirs(os.path.dirname(PIN), exist_ok=True)
    open(PIN, "w").write(P.dumps(inv))
    import collections
    c = collections.Counter(d["disposition"].split(":")[0] for d in inv)
    print("%d sites -> %s: %s" % (len(inv), PIN, dict(c)))


if __name__ == "__main__":
    main(sys.argv[1:])
