#!/usr/bin/env python3
"""Regenerates MANIFEST.json from the table below (kept in one place so that
the manifest stays valid while properties are added)."""
import json, os
VERIF = os.path.dirname(os.path.dirname(os.path.abspath(__file__)))

CLAIMED = {
 "C03": dict(
   text="Theorems over a statement-by-statement Gallina transcription of line_to_cmds and of the ;/&&/|| loop: for every "
        "well-formed program (any number of pipelines, arbitrary quoted/escaped/backquoted decoys, arbitrary blanks around "
        "operators) and every pipeline runner, run_command_line yields exactly the reference semantics (executed list, $?, "
        "final status) -- induction over atoms/items, closed under the global context. The model is tied to the code on every "
        "run by differential execution: exhaustive short strings + random ones through the real line_to_cmds (in-process, "
        "hooks) against the extracted splitter, and all operator/status programs through the real binary (-c and script) "
        "against both the reference semantics and the extracted loop.",
   note="Trusted: Coq kernel, extraction (ExtrOcamlBasic), OCaml/Rust/Python drivers, helper program. Modelled not verified: "
        "run_proc (one pipeline -> status) is an oracle; process exit status path in main.rs/scripting.rs is only exercised by L2.",
   technique="Coq proof (induction over program structure) + extraction-based differential correspondence",
   design="6/C03"),
}
NOT_APPLICABLE = {}

def main():
    props = [json.loads(l)["id"] for l in open(os.path.join(VERIF, "properties.jsonl"))]
    checks = []
    for p in props:
        if p in CLAIMED:
            c = CLAIMED[p]
            checks.append({
                "property_id": p,
                "quick_cmd": "./check %s quick" % p,
                "thorough_cmd": "./check %s thorough" % p,
                "evidence_file": "/verif/evidence/%s.json" % p,
                "replay_cmd_template": "./check %s quick --replay {path}" % p,
                "engine": "coq-model+correspondence",
                "level_claimed": {"category": "proof", "text": c["text"], "design_ref": c["design"]},
                "level_note": c["note"],
                "technique": c["technique"],
            })
    na = [{"property_id": p, "reason": NOT_APPLICABLE.get(p, "not yet built in this round: no check is registered, nothing is claimed (see DESIGN.md section 10)")}
          for p in props if p not in CLAIMED]
    m = {
        "version": 1,
        "setup_cmd": "./setup.sh",
        "hooks": {
            "guard": "cicada_verif",
            "enable": "RUSTFLAGS=\"--cfg cicada_verif\" (set by drive/common.py and harness/.cargo/config.toml)",
            "baseline_off_cmd": "cd /repo && cargo test --workspace --no-fail-fast --offline",
            "source_commits": ["c75e109"],
            "add_only": True,
        },
        "engines": [{"name": "coq-model+correspondence", "path": "/verif/check",
                     "serves_properties": sorted(CLAIMED),
                     "kind_free_text": "Coq 8.16 theorems over a transcribed executable model; model extracted to OCaml and compared "
                                       "with the implementation (in-process through cfg(cicada_verif) hooks, and the real binary)"}],
        "checks": checks,
        "not_applicable": na,
        "notes": "fix: commits in /repo: 83ed44b (list loop break->continue), 99eac62 (empty trailing segment); see known_findings.txt",
    }
    json.dump(m, open(os.path.join(VERIF, "MANIFEST.json"), "w"), indent=1)
    print("MANIFEST.json: %d checks, %d not_applicable" % (len(checks), len(na)))

if __name__ == "__main__":
    main()
