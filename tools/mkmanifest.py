#!/usr/bin/env python3
"""Regenerates MANIFEST.json from the table below (kept in one place so that
the manifest stays valid while properties are added)."""
import json, os
VERIF = os.path.dirname(os.path.dirname(os.path.abspath(__file__)))

CLAIMED = {
 "C03": dict(
   text="Theorems over a statement-by-statement Gallina transcription of line_to_cmds and of the ;/&&/|| loop: for every "
        "well-formed program (any number of pipelines, arbitrary quoted/escaped/backquoted decoys, arbitrary blanks around "
        "operators) and every pipeline runner, run_command_line yields exactly the reference semantics (executed list, $?, "
        "final status) -- induction over atoms/items, closed under the global context. The model is tied to the code on every "
        "run by differential execution: exhaustive short strings + random ones through the real line_to_cmds (in-process, "
        "hooks) against the extracted splitter, and all operator/status programs through the real binary (-c and script) "
        "against both the reference semantics and the extracted loop.",
   note="Trusted: Coq kernel, extraction (ExtrOcamlBasic), OCaml/Rust/Python drivers, helper program. Modelled not verified: "
        "run_proc (one pipeline -> status) is an oracle; process exit status path in main.rs/scripting.rs is only exercised by L2.",
   technique="Coq proof (induction over program structure) + extraction-based differential correspondence",
   design="6/C03"),
}
CLAIMED["C01"] = dict(
   text="Theorems over a statement-by-statement transcription of parse_line (12-field state machine), the expansion passes "
        "(Model/Expand.v), tokens_to_redirections, from_tokens, split_tokens_by_pipes, drain_env_tokens and the from_line glue. "
        "C01_tokenize_mixed: for ANY number of arguments, each single-quoted, double-quoted or backslash-escaped, any spacing, "
        "parse_line returns one token per argument holding exactly the written text. C01_plan_mixed_partial: text in, plan out "
        "through the REAL expansion passes and the planner, for every world (variables, aliases, glob and command oracles): "
        "outside the decidable Known_C01 -- exactly the two recorded classes (an escaped argument whose untagged token still "
        "triggers an expansion pass; an escaped ampersand in last position) -- the line is planned as ONE foreground command whose "
        "words are the command word and exactly the written texts, no pipe / background / redirection / assignment; the proof "
        "forced no third class. C01_plan_full is the class-free statement for quoted arguments; C01_split: quoted, escaped and "
        "backquoted atoms never split a line; C01_esc_refuted gives the witnesses for the two classes. Induction over arguments "
        "and characters, closed under the global context. Tie to the code: exhaustive short strings through the real parse_line / "
        "redirection parser vs the extracted model, the real from_line on the property's domain (3 styles x all texts up to length "
        "2 (3) x 6 positions + random lists of 0..6 arguments) with the property oracle on the implementation's plan, and argv seen "
        "by a helper through cicada -c (also in a world where an alias is defined: layer L2w). Round 9: the model's matchers for "
        "the regexes of parse_line / tokens_to_redirections / drain_env_tokens / is_arithmetic are proved equal to the regex ASTs "
        "regenerated from the source on every run (C01_is_an_env_is_source_regex, C01_split_env_is_source_regex, "
        "C01_redir_fd_is_source_regex, C01_redir_gt_is_source_regex, C01_redir_ptn1_is_source_regex, "
        "C01_redir_ptn2_is_source_regex, C01_is_arithmetic_is_source_regex).",
   note="Trusted: Coq kernel, extraction, drivers, tools/tables2coq.py (Unicode Nd table), tools/regex2coq.py (regex ASTs of the "
        "expansion gates). External behaviour (variables, aliases, glob, command output) is a World record of oracles the theorems "
        "quantify over. In correspondence layer L1c the implementation's own expansion output feeds the model planner (the expansion "
        "model is compared separately by C10-C13). execve argument construction only exercised by L2.",
   technique="Coq proof (state-machine invariants by induction) + extraction-based differential correspondence",
   design="6/C01, 12.1b")

NOT_APPLICABLE = {}
# checks built but temporarily not registered (model being brought in line with a repaired /repo)
HOLD = set(os.environ.get('VERIF_HOLD', '').split(',')) - {''}


def from_notes(p):
    """Manifest entry (a) of notes/<p>.md written by the builder of that check."""
    import re
    f = os.path.join(VERIF, "notes", p + ".md")
    if not os.path.exists(f):
        return None
    txt = open(f).read()
    m = re.search(r"##\s*\(a\)[^\n]*\n(.*?)(?=\n##\s*\(b\)|\Z)", txt, re.S)
    if not m:
        return None
    sec = m.group(1)
    out = {}
    for key in ("technique", "text", "note"):
        mm = re.search(r"(?:\*\*|`)" + key + r"(?:\*\*|`)[^:\n]*:\s*(.*?)(?=\n\s*[-*]?\s*(?:\*\*|`)(?:technique|text|note)(?:\*\*|`)|\Z)", sec, re.S)
        if mm:
            out[key] = " ".join(mm.group(1).replace("**", "").replace("`", "").split()).strip('" ')
    if {"technique", "text", "note"} <= set(out):
        out["design"] = "6/" + p
        return out
    return None


for _p in ["C02", "C04", "C05", "C06", "C07", "C08", "C09", "C10", "C11", "C12", "C13", "C14", "C15", "C16", "C17", "C18", "C19", "C20"]:
    if _p not in CLAIMED and _p not in HOLD and os.path.exists(os.path.join(VERIF, "drive", _p.lower() + ".py")) \
            and os.path.exists(os.path.join(VERIF, "coq", "theories", "Properties", _p + ".v")):
        _e = from_notes(_p)
        if _e:
            CLAIMED[_p] = _e

def main():
    props = [json.loads(l)["id"] for l in open(os.path.join(VERIF, "properties.jsonl"))]
    checks = []
    for p in props:
        if p in CLAIMED:
            c = CLAIMED[p]
            checks.append({
                "property_id": p,
                "quick_cmd": "./check %s quick" % p,
                "thorough_cmd": "./check %s thorough" % p,
                "evidence_file": "/verif/evidence/%s.json" % p,
                "replay_cmd_template": "./check %s quick --replay {path}" % p,
                "engine": "coq-model+correspondence",
                "level_claimed": {"category": "proof", "text": c["text"], "design_ref": c["design"]},
                "level_note": c["note"],
                "technique": c["technique"],
            })
    na = [{"property_id": p, "reason": NOT_APPLICABLE.get(p, "not yet built in this round: no check is registered, nothing is claimed (see DESIGN.md section 10)")}
          for p in props if p not in CLAIMED]
    m = {
        "version": 1,
        "setup_cmd": "./setup.sh",
        "hooks": {
            "guard": "cicada_verif",
            "enable": "RUSTFLAGS=\"--cfg cicada_verif\" (set by drive/common.py and harness/.cargo/config.toml)",
            "baseline_off_cmd": "cd /repo && cargo test --workspace --no-fail-fast --offline",
            "source_commits": ["c75e109", "303b975"],
            "add_only": True,
        },
        "engines": [{"name": "coq-model+correspondence", "path": "/verif/check",
                     "serves_properties": sorted(CLAIMED),
                     "kind_free_text": "Coq 8.16 theorems over a transcribed executable model; model extracted to OCaml and compared "
                                       "with the implementation (in-process through cfg(cicada_verif) hooks, and the real binary)"}],
        "checks": checks,
        "not_applicable": na,
        "notes": "Genuine defects repaired in /repo by fix: commits are listed as 'fixed:' lines in known_findings.txt; "
                 "recorded (unrepaired) ones as 'finding:' lines. See DESIGN.md.",
    }
    json.dump(m, open(os.path.join(VERIF, "MANIFEST.json"), "w"), indent=1)
    print("MANIFEST.json: %d checks, %d not_applicable" % (len(checks), len(na)))

if __name__ == "__main__":
    main()
