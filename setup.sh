#!/bin/sh
# MANIFEST.setup_cmd: build everything from files on disk, offline.
set -e
cd "$(dirname "$0")"
export CARGO_NET_OFFLINE=true
mkdir -p .cache/helpers evidence replays
for f in helpers/*.c; do cc -O1 -o ".cache/helpers/$(basename "$f" .c)" "$f"; done
# Coq: full .vo build of the whole development
cd coq
coq_makefile -f _CoqProject $(find theories -name '*.v' | sort) -o Makefile >/dev/null
rm -f .files.stamp
timeout 3000 make -j16 -k >/dev/null 2>&1 || echo "setup: some Coq files failed to build (the checks will report which)"
cd ..
sed "s#@REPO@#${CICADA_REPO:-/repo}#" harness/Cargo.toml.in > harness/Cargo.toml
# Rust: harness binaries + cicada (hooks on) from /repo's working tree
T="$PWD/.cache/target"
(cd harness && CARGO_TARGET_DIR="$T" RUSTFLAGS="--cfg cicada_verif" cargo build --offline --bins 2>&1 | tail -2)
(cd "${CICADA_REPO:-/repo}" && CARGO_TARGET_DIR="$T" RUSTFLAGS="--cfg cicada_verif" cargo build --offline --bin cicada 2>&1 | tail -2)
echo "setup done"
