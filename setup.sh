#!/bin/sh
# MANIFEST.setup_cmd: build everything from files on disk, offline.
set -e
cd "$(dirname "$0")"
export CARGO_NET_OFFLINE=true
mkdir -p .cache/helpers evidence replays
for f in helpers/*.c; do cc -O1 -o ".cache/helpers/$(basename "$f" .c)" "$f"; done
# Coq: full .vo build of the whole development
cd coq
coq_makefile -f _CoqProject $(find theories -name '*.v' | sort) -o Makefile >/dev/null
find theories -name '*.v' | sort > .files.stamp.tmp; tr '\n' '\n' < .files.stamp.tmp | sed '$!b' > /dev/null; rm -f .files.stamp.tmp .files.stamp
timeout 3000 make -j16 -k >/dev/null 2>&1 || echo "setup: some Coq files failed to build (the checks will report which)"
cd ..
# Rust: harness binaries + cicada (hooks on) from /repo's working tree
(cd harness && CARGO_TARGET_DIR=/verif/.cache/target RUSTFLAGS="--cfg cicada_verif" cargo build --offline --bins 2>&1 | tail -2)
(cd "${CICADA_REPO:-/repo}" && CARGO_TARGET_DIR=/verif/.cache/target RUSTFLAGS="--cfg cicada_verif" cargo build --offline --bin cicada 2>&1 | tail -2)
echo "setup done"
